"""Coverage-guided campaign for one sub-check (thorough tier only, optional):

    python -m vt.fuzz <ID> <sub> --runs N --seed S --work DIR

atheris (libFuzzer for Python) mutates a byte string; Hypothesis' `fuzz_one_input` decodes it with the very strategy the
random tier uses, so the fuzzer explores the same structured case space, but guided by line/branch coverage of scikit_tt
(the library is imported under atheris' bytecode instrumentation).  The oracle is the same body.  A failing input is stored
in a Hypothesis example database under DIR/db (and DIR/failure.json describes it); the parent (vt/run.py) then replays that
database through the normal Hypothesis runner with phases [reuse, shrink], which yields the minimal replay file.  Statistics
are written to DIR/stats.json every few hundred executions (libFuzzer leaves the process without running atexit handlers).
"""
import os
import sys
import json
import time
import argparse
import traceback
import collections

from vt import common
from vt.common import VERIF


class FlatDB(object):
    """Hypothesis example database that ignores the key (the fuzz process and the shrink stage wrap different functions)"""

    def __new__(cls, path):
        from hypothesis.database import ExampleDatabase, DirectoryBasedExampleDatabase

        class _Flat(ExampleDatabase):
            def __init__(self, p):
                super().__init__()
                self.inner = DirectoryBasedExampleDatabase(p)

            def save(self, key, value):
                self.inner.save(b'vt', value)

            def fetch(self, key):
                # served as the *secondary* corpus only: entries of the primary corpus count as already minimal and are
                # not shrunk again, and what the fuzzer stored is not minimal
                if key.endswith(b'.secondary'):
                    yield from self.inner.fetch(b'vt')

            def delete(self, key, value):
                self.inner.delete(b'vt', value)

        return _Flat(path)


def available():
    for deps in (os.path.join(VERIF, '.deps'), '/verif/.deps'):
        if deps not in sys.path and os.path.isdir(os.path.join(deps, 'atheris')):
            sys.path.insert(0, deps)
            break
    try:
        import atheris  # noqa
        return True
    except Exception:
        return False


def main(argv=None):
    ap = argparse.ArgumentParser()
    ap.add_argument('prop')
    ap.add_argument('sub')
    ap.add_argument('--runs', type=int, default=2000)
    ap.add_argument('--seed', type=int, default=1)
    ap.add_argument('--work', required=True)
    ap.add_argument('--max-len', type=int, default=2048)
    args = ap.parse_args(argv)
    prop_id = args.prop.upper()
    os.makedirs(args.work, exist_ok=True)
    corpus = os.path.join(args.work, 'corpus')
    os.makedirs(corpus, exist_ok=True)
    stats_path = os.path.join(args.work, 'stats.json')
    fail_path = os.path.join(args.work, 'failure.json')
    if not available():
        json.dump({'unavailable': 'atheris cannot be imported'}, open(stats_path, 'w'))
        return 3
    import atheris
    import warnings
    warnings.filterwarnings('ignore')
    import numpy as np
    np.seterr(all='ignore')
    if 'scikit_tt' in sys.modules:
        raise RuntimeError('scikit_tt was imported before the instrumentation was switched on')
    with atheris.instrument_imports(include=['scikit_tt'], enable_loader_override=False):
        mod = common.load_module(prop_id)          # imports scikit_tt (instrumented) and the property module
    common.check_repo_binding()
    sub = [s for s in mod.SUBCHECKS if s.name == args.sub][0]
    known = common.load_known(prop_id)
    import hypothesis
    from hypothesis import given, settings, HealthCheck
    from hypothesis.errors import UnsatisfiedAssumption

    stats = {'property': prop_id, 'sub': args.sub, 'seed': args.seed, 'runs_requested': args.runs, 'executions': 0, 'evaluations': 0,
             'discarded': 0, 'invalid_buffers': 0, 'nt': 0, 'labels': {}, 'excluded_known': {}, 'wall_s': 0.0, 'samples': [], 'done': False}
    labels = collections.Counter()
    nt = set()
    t0 = time.time()

    def dump(done=False):
        stats['labels'] = dict(labels)
        stats['nt'] = len(nt)
        stats['wall_s'] = round(time.time() - t0, 2)
        stats['done'] = done
        tmp = stats_path + '.tmp'
        with open(tmp, 'w') as fh:
            json.dump(stats, fh)
        os.replace(tmp, stats_path)

    def wrapped(case):
        try:
            lab = sub.body(case)
        except UnsatisfiedAssumption:
            stats['discarded'] += 1
            raise
        except BaseException as exc:  # noqa
            if isinstance(exc, (KeyboardInterrupt, SystemExit)):
                raise
            kind, clause, msg, frame = common.classify_exception(exc)
            if kind == 'violation':
                for e in known:
                    if common.matches_known(e, args.sub, clause, case):
                        stats['excluded_known'][e.get('id', '?')] = stats['excluded_known'].get(e.get('id', '?'), 0) + 1
                        return
            with open(fail_path, 'w') as fh:
                json.dump({'kind': kind, 'clause': clause, 'message': msg[:4000], 'frame': frame, 'case': json.loads(common.canon(case)),
                           'traceback': ''.join(traceback.format_exception(type(exc), exc, exc.__traceback__))[-4000:]}, fh, indent=1)
            dump()
            raise
        lab = frozenset(lab or ())
        stats['evaluations'] += 1
        for l in lab:
            labels[l] += 1
        if sub.nontrivial(lab):
            nt.add(common.case_hash(case))
        if len(stats['samples']) < 2:
            stats['samples'].append({'subcheck': args.sub, 'case': json.loads(common.canon(case)), 'labels': sorted(lab)})

    test = given(sub.strategy)(wrapped)
    test = settings(database=FlatDB(os.path.join(args.work, 'db')), deadline=None, suppress_health_check=list(HealthCheck),
                    print_blob=False)(test)
    fuzz_one = test.hypothesis.fuzz_one_input

    def target(data):
        stats['executions'] += 1
        if fuzz_one(data) is None:
            stats['invalid_buffers'] += 1
        if stats['executions'] % 200 == 0 or stats['executions'] >= args.runs:
            dump(done=stats['executions'] >= args.runs)

    dump()
    atheris.Setup([sys.argv[0], '-runs=%d' % args.runs, '-seed=%d' % (args.seed % (2 ** 31 - 1) + 1), '-max_len=%d' % args.max_len,
                   '-len_control=0', '-artifact_prefix=%s/' % args.work, '-print_final_stats=1', '-verbosity=0', corpus], target)
    atheris.Fuzz()
    dump(done=True)
    return 0


if __name__ == '__main__':
    sys.exit(main())
