"""Construction of scikit_tt objects from JSON-able specs (harness side; uses only TT(list_of_cores))."""
import os
import numpy as np
from scikit_tt.tensor_train import TT
from vt import dense
from vt.common import Violation


def rand_array(rng, shape, cplx=False, entries='normal', layout='C'):
    shape = tuple(int(s) for s in shape)
    if entries == 'nonneg':
        a = rng.uniform(0.0, 1.0, shape)
    elif entries == 'int':
        a = rng.integers(-2, 3, shape).astype(float)
    elif entries == 'zero':
        a = np.zeros(shape)
    else:
        a = rng.standard_normal(shape)
    if cplx:
        if entries == 'int':
            a = a + 1j * rng.integers(-2, 3, shape)
        elif entries == 'zero':
            a = a.astype(complex)
        else:
            a = a + 1j * rng.standard_normal(shape)
    if layout == 'F':
        a = np.asfortranarray(a)
    elif layout == 'T':
        # a transposed view of a C-contiguous buffer (what np.transpose(core, [3,1,2,0]) produces in the library)
        a = np.ascontiguousarray(np.transpose(a, [3, 1, 2, 0])).transpose([3, 1, 2, 0]) if a.ndim == 4 else a
    return a


def make_cores(spec, rng=None):
    rng = rng if rng is not None else np.random.default_rng(spec['seed'])
    d = len(spec['rows'])
    cores = []
    for i in range(d):
        shape = (spec['ranks'][i], spec['rows'][i], spec['cols'][i], spec['ranks'][i + 1])
        # 'real_cores': indices of cores that stay real-typed inside a complex train (mixed dtypes within one train are
        # legitimate: scalar * t makes only core 0 complex, sums and build_core decide core by core)
        cplx_i = spec['cplx'] and i not in spec.get('real_cores', [])
        cores.append(rand_array(rng, shape, cplx_i, spec.get('entries', 'normal'), spec.get('layout', 'C')))
    for i in spec.get('zero_cores', []):
        if 0 <= i < d:
            cores[i] = np.zeros_like(cores[i])
    if spec.get('int_dtype') and not spec['cplx']:
        # integer-typed core arrays (e.g. 0/1 tensors built with dtype=int)
        cores = [np.rint(2 * c).astype(np.int64) for c in cores]
    return cores


def make_tt(spec, rng=None):
    return TT(make_cores(spec, rng))


def tt_from(cores):
    return TT([np.array(c) for c in cores])


def snapshot(t):
    """bit-exact shadow of a TT: (core copies, metadata copies)"""
    return ([np.array(c, copy=True) for c in t.cores], list(t.row_dims), list(t.col_dims), list(t.ranks), t.order)


def unchanged(t, snap):
    """None if t still has the value and shape metadata of its shadow, else a description.

    Bit-identical cores are accepted immediately; otherwise the metadata must be equal and the dense value must agree to
    1e-10 relative to the product of the core norms (a value-preserving re-gauging of an argument is not a change of its value;
    anything that aliasing or an in-place sweep on a shared buffer does is O(1))."""
    cores, rows, cols, ranks, order = snap
    msg = dense.consistent(t)
    if msg:
        return 'inconsistent: ' + msg
    if t.order != order or list(t.row_dims) != rows or list(t.col_dims) != cols or list(t.ranks) != ranks:
        return 'metadata changed: order %s->%s rows %s->%s cols %s->%s ranks %s->%s' % (
            order, t.order, rows, t.row_dims, cols, t.col_dims, ranks, t.ranks)
    if all(a.shape == b.shape and np.array_equal(a, b, equal_nan=True) for a, b in zip(t.cores, cores)):
        return None
    scale = max(dense.scale_of(cores), 1e-300)
    size = float(np.prod([float(r) * c for r, c in zip(rows, cols)]))
    if size <= 2e6 and ranks[0] == 1 and ranks[-1] == 1:
        diff = float(np.max(np.abs(dense.contract(t.cores) - dense.contract(cores))))
    else:
        diff = dense.tt_norm(dense.tt_add([np.asarray(c) for c in t.cores], dense.tt_scale(cores, -1.0)))
    if not diff <= 1e-10 * scale:
        return 'dense value changed (max abs diff %.3e, scale %.3e)' % (diff, scale)
    return None


def require_consistent(t, clause='consistent'):
    if not isinstance(t, TT):
        raise Violation(clause, 'expected a TT, got %s' % type(t).__name__)
    msg = dense.consistent(t)
    if msg:
        raise Violation(clause, msg)


def require_unchanged(t, snap, what, strict=False):
    """strict: the statement says the object is "not modified" / "left unchanged" (C11, C16, C17) -- then the cores themselves must
    be what they were, bit by bit; otherwise (the statement speaks of the operand's VALUE, C06) a re-gauging is not a change"""
    msg = unchanged(t, snap)
    if not msg and (strict or os.environ.get('VERIF_STRICT_UNCHANGED')):
        for k, (a, b) in enumerate(zip(t.cores, snap[0])):
            if a.shape != b.shape or a.dtype != b.dtype or not np.array_equal(a, b, equal_nan=True):
                msg = 'core %d was rewritten (the tensor it represents is the same up to rounding)' % k
                break
    if msg:
        raise Violation('operand_unchanged', '%s: %s' % (what, msg))


def close(got, want, tol, scale, clause, what=''):
    got = np.asarray(got)
    want = np.asarray(want)
    if got.shape != want.shape:
        raise Violation(clause, '%s shape %s, expected %s' % (what, got.shape, want.shape))
    if got.size == 0:
        return
    if not np.all(np.isfinite(got)):
        raise Violation(clause, '%s contains non-finite entries' % what)
    err = float(np.max(np.abs(got - want)))
    if not err <= tol * max(scale, 1e-300):
        raise Violation(clause, '%s differs: max abs err %.3e > %.1e * scale %.3e' % (what, err, tol, scale))
