"""Harness-side import stub: scikit_tt.quantum_computation imports matplotlib.pyplot at module level, and matplotlib is
not installed in this environment.  Only plot_histogram uses it; the sampler does not."""
