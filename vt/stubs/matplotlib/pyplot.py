"""stub (see package docstring)"""
rcParams = {}


def _unavailable(*a, **k):
    raise RuntimeError('matplotlib is not available in the verification environment')


figure = ylim = ylabel = xlabel = text = bar = tight_layout = show = _unavailable
