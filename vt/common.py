"""Runner infrastructure shared by all property checks.

A property module (vt/props/cNN.py) exposes

    PROPERTY_ID, RULE, ASSUMPTIONS, SUBCHECKS = [Sub(...), ...]

Each Sub couples a Hypothesis strategy that yields a JSON-able ``case`` dict with a ``body(case)`` that
evaluates scikit_tt against an independent oracle and returns an iterable of class labels.  A body signals a
violated clause by raising ``Violation(clause, message)``; an exception that escapes from scikit_tt code on a
generated (admissible) input is a violation of the clause "returns ..." as well; any other exception is a
harness error (exit code 2, never a VIOLATION line).
"""
import os
import sys
import json
import time
import hashlib
import traceback
import collections

VERIF = os.path.dirname(os.path.dirname(os.path.abspath(__file__)))
REPO = os.path.realpath(os.environ.get('VERIF_REPO', '/repo'))
REPLAY_DIR = os.environ.get('VERIF_REPLAY_DIR', os.path.join(VERIF, 'replays'))
EVIDENCE_DIR = os.environ.get('VERIF_EVIDENCE_DIR', os.path.join(VERIF, 'evidence'))
KNOWN_FILE = os.path.join(VERIF, 'known_findings.json')


class Violation(AssertionError):
    """A clause of the property is false for the generated case."""

    def __init__(self, clause, msg=''):
        super().__init__('%s: %s' % (clause, msg))
        self.clause = clause
        self.msg = msg


class HarnessError(RuntimeError):
    pass


def target(value, label=''):
    """steer Hypothesis' targeted search towards larger values of an observable (no-op outside a generated run)"""
    try:
        import math
        import hypothesis
        v = float(value)
        if math.isfinite(v):
            hypothesis.target(v, label=label)
    except Exception:
        pass


def require(cond, clause, msg=''):
    if not cond:
        raise Violation(clause, msg() if callable(msg) else msg)


class Sub(object):
    """One sub-check of a property.

    name       identifier (used in seeds, replay files, evidence)
    strategy   Hypothesis strategy yielding a JSON-able dict
    body       body(case) -> iterable of labels; raises Violation
    nontrivial predicate on the label set (default: any label at all)
    quick / thorough    number of generated cases per shard
    shards_quick / shards_thorough   number of independently seeded shards (run in parallel)
    budget_s   soft wall-clock budget per shard (seconds): when exceeded the remaining generated cases are
               skipped and counted as 'budget_skipped' -- inconclusive, never a violation
    classes    labels that the generator is expected to reach (reported as missing_classes when absent)
    """

    def __init__(self, name, strategy, body, nontrivial=None, quick=200, thorough=2000, shards_quick=2,
                 shards_thorough=16, budget_quick=120.0, budget_thorough=1500.0, classes=(), cases=None):
        self.name = name
        self.strategy = strategy
        self.body = body
        self.nontrivial = nontrivial if nontrivial is not None else (lambda labels: len(labels) > 0)
        self.quick = quick
        self.thorough = thorough
        self.shards_quick = shards_quick
        self.shards_thorough = shards_thorough
        self.budget_quick = budget_quick
        self.budget_thorough = budget_thorough
        self.classes = tuple(classes)
        # cases: an explicit finite list of cases that is enumerated completely (split over the shards) instead of being
        # generated; strategy is then ignored
        self.cases = cases


# ---------------------------------------------------------------------------------------------------------
# helpers
# ---------------------------------------------------------------------------------------------------------

def canon(case):
    return json.dumps(case, sort_keys=True, separators=(',', ':'), default=_json_default)


def _json_default(o):
    import numpy as np
    if isinstance(o, (np.integer,)):
        return int(o)
    if isinstance(o, (np.floating,)):
        return float(o)
    if isinstance(o, (np.bool_,)):
        return bool(o)
    if isinstance(o, complex):
        return {'re': o.real, 'im': o.imag}
    if isinstance(o, np.ndarray):
        return o.tolist()
    if isinstance(o, (set, frozenset, tuple)):
        return list(o)
    raise TypeError('not JSON serialisable: %r' % (type(o),))


def case_hash(case):
    return int(hashlib.sha1(canon(case).encode()).hexdigest()[:15], 16)


def derive_seed(base, *parts):
    h = hashlib.sha256(('%d|' % base + '|'.join(str(p) for p in parts)).encode()).hexdigest()
    return int(h[:12], 16)


def load_module(prop_id):
    import importlib
    return importlib.import_module('vt.props.' + prop_id.lower())


def check_repo_binding():
    import scikit_tt
    f = os.path.realpath(scikit_tt.__file__)
    if not f.startswith(REPO + os.sep):
        raise HarnessError('scikit_tt imported from %s, expected under %s' % (f, REPO))


def library_frame(tb):
    """innermost traceback frame that lies in the scikit_tt package under test (or None)"""
    found = None
    root = os.path.join(REPO, 'scikit_tt') + os.sep
    for fs in traceback.extract_tb(tb):
        if os.path.realpath(fs.filename).startswith(root):
            found = fs
    return found


def classify_exception(exc):
    """-> (kind, clause, message, frame) with kind in {'violation', 'harness'}"""
    if isinstance(exc, Violation):
        return 'violation', exc.clause, exc.msg, ''
    fr = library_frame(exc.__traceback__)
    if fr is not None:
        where = '%s:%s' % (os.path.basename(fr.filename), fr.name)
        return 'violation', 'exception:%s@%s' % (type(exc).__name__, where), '%s: %s' % (type(exc).__name__, exc), where
    return 'harness', 'harness:%s' % type(exc).__name__, ''.join(traceback.format_exception(type(exc), exc, exc.__traceback__)), ''


# ---------------------------------------------------------------------------------------------------------
# known findings
# ---------------------------------------------------------------------------------------------------------

def load_known(prop_id):
    """entries with status 'known' for this property (entries with status 'fixed' suppress nothing)"""
    if not os.path.exists(KNOWN_FILE):
        return []
    with open(KNOWN_FILE) as f:
        data = json.load(f)
    return [e for e in data.get('findings', []) if e.get('property') == prop_id and e.get('status') == 'known']


def matches_known(entry, sub, clause, case):
    m = entry.get('match', {})
    if 'subcheck' in m and m['subcheck'] != sub:
        return False
    if 'clause_prefix' in m and not clause.startswith(m['clause_prefix']):
        return False
    for key, allowed in m.get('case', {}).items():
        cur = case
        for part in key.split('.'):
            if isinstance(cur, dict) and part in cur:
                cur = cur[part]
            else:
                return False
        if isinstance(allowed, list):
            if cur not in allowed:
                return False
        elif cur != allowed:
            return False
    return True


# ---------------------------------------------------------------------------------------------------------
# one shard of one sub-check (runs in a worker process)
# ---------------------------------------------------------------------------------------------------------

class CaseTimeout(BaseException):
    """raised by the per-case alarm inside a body (BaseException: library `except Exception` must not swallow it)"""


def run_shard(args):
    prop_id, sub_name, shard, n, seed, budget = args[:6]
    nshards_total = args[6] if len(args) > 6 else 1
    opts = args[7] if len(args) > 7 else {}
    t0 = time.time()
    out = {'sub': sub_name, 'shard': shard, 'seed': seed, 'evaluations': 0, 'nt_hashes': [], 'all_hashes': 0,
           'labels': {}, 'discarded': 0, 'excluded_known': {}, 'budget_skipped': 0, 'samples': [], 'timeout_cases': [],
           'failure': None, 'harness_error': None, 'wall_s': 0.0}
    try:
        import warnings
        warnings.filterwarnings('ignore')
        import numpy as np
        np.seterr(all='ignore')
        import hypothesis
        from hypothesis import given, settings, HealthCheck, Phase
        from hypothesis.errors import UnsatisfiedAssumption
        check_repo_binding()
        if os.environ.get('VERIF_FAULT'):
            # diagnosis aid: dump the Python stack of a shard that is still running after VERIF_FAULT seconds
            import faulthandler
            fh = open('%s-%s-%s-%d.stack' % (os.environ.get('VERIF_FAULT_PREFIX', '/var/tmp/vt'), prop_id, sub_name, shard), 'w')
            faulthandler.dump_traceback_later(float(os.environ['VERIF_FAULT']), repeat=True, file=fh)
        cov = None
        if os.environ.get('VERIF_COVERAGE') == '1' and shard == 0:
            try:
                import coverage
                cov = coverage.Coverage(data_file=None, include=[os.path.join(REPO, 'scikit_tt', '*')], config_file=False)
                cov.start()
            except Exception:
                cov = None
        mod = load_module(prop_id)
        sub = [s for s in mod.SUBCHECKS if s.name == sub_name][0]
        known = load_known(prop_id)
        labels = collections.Counter()
        nt = set()
        allh = set()
        excluded = collections.Counter()
        state = {'last_fail': None}

        import signal
        case_limit = float(os.environ.get('VERIF_CASE_LIMIT', '300'))

        def _on_alarm(signum, frame):
            raise CaseTimeout()
        signal.signal(signal.SIGALRM, _on_alarm)

        def wrapped(case):
            if time.time() - t0 > budget:
                out['budget_skipped'] += 1
                return
            try:
                signal.setitimer(signal.ITIMER_REAL, case_limit)
                try:
                    lab = sub.body(case)
                finally:
                    signal.setitimer(signal.ITIMER_REAL, 0)
            except CaseTimeout:
                # one case ran longer than the per-case limit: inconclusive (counted with the budget skips, the case
                # is kept in the evidence), never a verdict
                out['budget_skipped'] += 1
                if len(out['timeout_cases']) < 2:
                    out['timeout_cases'].append(json.loads(canon(case)))
                return
            except UnsatisfiedAssumption:
                out['discarded'] += 1
                raise
            except BaseException as exc:  # noqa
                if isinstance(exc, (KeyboardInterrupt, SystemExit)):
                    raise
                kind, clause, msg, frame = classify_exception(exc)
                if kind == 'violation':
                    for e in known:
                        if matches_known(e, sub_name, clause, case):
                            excluded[e.get('id', '?')] += 1
                            return
                state['last_fail'] = {'kind': kind, 'clause': clause, 'message': msg, 'frame': frame, 'case': case,
                                      'traceback': ''.join(traceback.format_exception(type(exc), exc, exc.__traceback__))[-4000:]}
                raise
            lab = frozenset(lab or ())
            out['evaluations'] += 1
            for l in lab:
                labels[l] += 1
            h = case_hash(case)
            allh.add(h)
            if sub.nontrivial(lab):
                nt.add(h)
            if len(out['samples']) < 3:
                out['samples'].append({'subcheck': sub_name, 'case': json.loads(canon(case)), 'labels': sorted(lab)})

        if sub.cases is not None:
            # exhaustive enumeration of a finite case list (this shard's slice); no shrinking needed, cases are atomic
            nshards = max(1, nshards_total)
            buckets = {}
            for case in sub.cases[shard::nshards]:
                try:
                    wrapped(case)
                except BaseException as exc:  # noqa
                    if isinstance(exc, (KeyboardInterrupt, SystemExit)):
                        raise
                    lf = state['last_fail']
                    if lf is not None and lf['kind'] == 'violation':
                        # the enumeration continues; one representative per (clause, first case field) bucket is reported
                        first = sorted(case.items())[0][1] if isinstance(case, dict) and case else ''
                        key = (lf['clause'], str(case.get('producer', first)) if isinstance(case, dict) else '')
                        if key not in buckets:
                            lf = dict(lf)
                            lf['case'] = json.loads(canon(lf['case']))
                            buckets[key] = lf
                    else:
                        out['harness_error'] = (lf['message'] if lf else ''.join(traceback.format_exception(type(exc), exc, exc.__traceback__)))[-6000:]
                        break
            if buckets:
                out['failures'] = list(buckets.values())
                out['failure'] = out['failures'][0]
            out['labels'] = dict(labels)
            out['nt_hashes'] = sorted(nt)
            out['all_hashes'] = len(allh)
            out['excluded_known'] = dict(excluded)
            out['enumerated'] = len(sub.cases[shard::nshards])
            _collect_coverage(cov, out)
            out['wall_s'] = time.time() - t0
            return out
        test = given(sub.strategy)(wrapped)
        if opts.get('db'):
            # shrink stage of a coverage-guided campaign (vt/fuzz.py): replay the failing inputs it stored and minimise them
            from vt.fuzz import FlatDB
            test = settings(max_examples=max(n, 1), database=FlatDB(opts['db']), deadline=None, derandomize=False, report_multiple_bugs=False,
                            suppress_health_check=list(HealthCheck), phases=[Phase.reuse, Phase.shrink], print_blob=False)(test)
        else:
            test = settings(max_examples=n, database=None, deadline=None, derandomize=False, report_multiple_bugs=False,
                            suppress_health_check=list(HealthCheck), phases=[Phase.generate, Phase.target, Phase.shrink],
                            print_blob=False)(test)
        if not opts.get('db'):
            test = hypothesis.seed(seed)(test)      # (@seed switches the example database off: not in the shrink stage)
        try:
            test()
        except BaseException as exc:  # noqa
            if isinstance(exc, (KeyboardInterrupt, SystemExit)):
                raise
            lf = state['last_fail']
            if lf is None:
                out['harness_error'] = ''.join(traceback.format_exception(type(exc), exc, exc.__traceback__))[-6000:]
            elif lf['kind'] == 'harness':
                out['harness_error'] = lf['message'][-6000:] + '\ncase: ' + canon(lf['case'])[:2000]
            else:
                lf = dict(lf)
                lf['case'] = json.loads(canon(lf['case']))
                out['failure'] = lf
        out['labels'] = dict(labels)
        out['nt_hashes'] = sorted(nt)
        out['all_hashes'] = len(allh)
        out['excluded_known'] = dict(excluded)
        _collect_coverage(cov, out)
    except BaseException as exc:  # noqa
        if isinstance(exc, (KeyboardInterrupt, SystemExit)):
            raise
        out['harness_error'] = ''.join(traceback.format_exception(type(exc), exc, exc.__traceback__))[-6000:]
    out['wall_s'] = time.time() - t0
    return out


def _collect_coverage(cov, out):
    if cov is None:
        return
    try:
        cov.stop()
        data = {}
        root = os.path.join(REPO, 'scikit_tt') + os.sep
        for f in cov.get_data().measured_files():
            if not f.startswith(root):
                continue
            _, statements, _, missing, _ = cov.analysis2(f)
            data[f[len(root):]] = {'statements': sorted(statements), 'missing': sorted(missing)}
        out['coverage'] = data
    except Exception as exc:  # coverage is diagnostics only
        out['coverage_error'] = repr(exc)


def run_replay(prop_id, path):
    """re-run a saved case directly (no Hypothesis). -> (status, info); status in ok / violation / harness"""
    import warnings
    warnings.filterwarnings('ignore')
    import numpy as np
    np.seterr(all='ignore')
    check_repo_binding()
    with open(path) as f:
        rep = json.load(f)
    mod = load_module(prop_id)
    subs = [s for s in mod.SUBCHECKS if s.name == rep['subcheck']]
    if not subs:
        return 'harness', 'unknown sub-check %r in %s' % (rep['subcheck'], path)
    try:
        subs[0].body(rep['case'])
    except BaseException as exc:  # noqa
        if isinstance(exc, (KeyboardInterrupt, SystemExit)):
            raise
        from hypothesis.errors import UnsatisfiedAssumption
        if isinstance(exc, UnsatisfiedAssumption):
            return 'ok', 'case discarded by assume()'
        kind, clause, msg, frame = classify_exception(exc)
        if kind == 'violation':
            for e in load_known(prop_id):
                if matches_known(e, rep['subcheck'], clause, rep['case']):
                    return 'known', (e, clause, msg)
            return 'violation', (clause, msg)
        return 'harness', msg
    return 'ok', ''


def _replay_worker(args):
    prop_id, path = args
    try:
        return path, run_replay(prop_id, path)
    except BaseException as exc:  # noqa
        return path, ('harness', ''.join(traceback.format_exception(type(exc), exc, exc.__traceback__)))
