"""./check <ID> [--tier quick|thorough] [--replay FILE] [--sub NAME] [--n N] [--shards K]"""
import os
import sys
import json
import glob
import time
import argparse
import collections
import multiprocessing as mp

from vt import common
from vt.common import VERIF, REPO


def _ranges(nums):
    out, start, prev = [], None, None
    for n in nums:
        if start is None:
            start = prev = n
        elif n == prev + 1:
            prev = n
        else:
            out.append('%d-%d' % (start, prev) if prev > start else str(start))
            start = prev = n
    if start is not None:
        out.append('%d-%d' % (start, prev) if prev > start else str(start))
    return out


def _child(func, idx, job, q):
    try:
        q.put((idx, func(job)))
    except BaseException as exc:  # noqa
        import traceback
        q.put((idx, {'_crashed': ''.join(traceback.format_exception(type(exc), exc, exc.__traceback__))[-4000:]}))


def run_jobs(func, jobs, nproc, deadline_of, lost_result):
    """One forked process per job, at most `nproc` at a time, each with a hard deadline (seconds).  A job whose process dies or
    overruns its deadline (e.g. LAPACK spinning on non-finite input: no Python signal handler runs inside a C call) is killed and
    replaced by `lost_result(job, reason)` -- inconclusive, never a verdict.  Results come back in job order."""
    import queue
    ctx = mp.get_context('fork')
    q = ctx.Queue()
    pending = list(enumerate(jobs))
    running = {}
    results = {}
    dead_since = {}
    while pending or running:
        while pending and len(running) < nproc:
            idx, job = pending.pop(0)
            proc = ctx.Process(target=_child, args=(func, idx, job, q))
            proc.daemon = True
            proc.start()
            running[idx] = (proc, time.time(), job)
        try:
            while True:
                idx, res = q.get(timeout=0.05 if running else 0)
                results[idx] = res
                if idx in running:
                    running.pop(idx)[0].join(timeout=5)
        except queue.Empty:
            pass
        now = time.time()
        for idx, (proc, t1, job) in list(running.items()):
            if now - t1 > deadline_of(job):
                proc.kill()
                proc.join(timeout=5)
                running.pop(idx)
                results[idx] = lost_result(job, 'killed at its deadline of %.0f s' % deadline_of(job))
            elif not proc.is_alive():
                # exited without a result in the queue yet: give the queue a moment, then count it as lost
                if now - dead_since.setdefault(idx, now) > 3.0:
                    running.pop(idx)
                    results[idx] = lost_result(job, 'worker process died (exit code %s)' % proc.exitcode)
    out = []
    for i, job in enumerate(jobs):
        r = results[i]
        if isinstance(r, dict) and '_crashed' in r:
            r = lost_result(job, 'worker raised: ' + r['_crashed'])
            r['harness_error'] = r['lost']
        out.append(r)
    return out


def _lost_shard(job, reason):
    prop_id, sub_name, shard, n, seed = job[:5]
    return {'sub': sub_name, 'shard': shard, 'seed': seed, 'evaluations': 0, 'nt_hashes': [], 'all_hashes': 0, 'labels': {}, 'discarded': 0,
            'excluded_known': {}, 'budget_skipped': n, 'samples': [], 'timeout_cases': [], 'failure': None, 'harness_error': None, 'wall_s': 0.0,
            'lost': reason}


def run_fuzz_stage(prop_id, subs, seed, args, pool):
    """atheris campaigns (vt/fuzz.py), `campaigns` per sub-check in parallel sub-processes; a failing campaign is handed to the
    normal Hypothesis runner for replay + shrinking.  -> (summary for the evidence, shard-like results of the shrink stage)"""
    import shutil
    import tempfile
    import subprocess
    from vt import fuzz
    if not fuzz.available():
        return {'available': False, 'note': 'atheris is not installed (setup_cmd installs it into /verif/.deps); stage skipped'}, []
    campaigns = int(os.environ.get('VERIF_FUZZ_CAMPAIGNS', '4'))
    work_root = tempfile.mkdtemp(prefix='verif-fuzz-', dir=os.environ.get('VERIF_SCRATCH', '/var/tmp'))
    info = {'available': True, 'engine': 'atheris (libFuzzer) driving hypothesis fuzz_one_input with the same strategies and bodies; '
                                         'scikit_tt imported under atheris bytecode instrumentation (coverage feedback)',
            'campaigns': 0, 'executions': 0, 'evaluations': 0, 'distinct_nontrivial': 0, 'corpus_units': 0, 'inconclusive': 0, 'subchecks': {}}
    procs = []
    extra = []
    try:
        todo = []
        for s in subs:
            runs = int(os.environ.get('VERIF_FUZZ_RUNS', '0')) or max(200, s.thorough)
            for k in range(campaigns):
                work = os.path.join(work_root, '%s-%d' % (s.name, k))
                fseed = common.derive_seed(seed, prop_id, 'fuzz:' + s.name, k)
                todo.append((s, k, work, runs, fseed))
        running = []
        t_start = time.time()

        def reap(block):
            for item in list(running):
                s, k, work, runs, fseed, proc, t1 = item
                rc = proc.poll()
                if rc is None and time.time() - t1 > s.budget_thorough:
                    proc.kill()
                    rc = -9
                if rc is None:
                    continue
                running.remove(item)
                st = {}
                try:
                    st = json.load(open(os.path.join(work, 'stats.json')))
                except Exception:
                    pass
                ps = info['subchecks'].setdefault(s.name, {'campaigns': 0, 'executions': 0, 'evaluations': 0, 'distinct_nontrivial': 0,
                                                           'corpus_units': 0, 'seeds': [], 'inconclusive': 0})
                ps['campaigns'] += 1
                ps['seeds'].append(fseed)
                ps['executions'] += st.get('executions', 0)
                ps['evaluations'] += st.get('evaluations', 0)
                ps['distinct_nontrivial'] += st.get('nt', 0)
                try:
                    ps['corpus_units'] += len(os.listdir(os.path.join(work, 'corpus')))
                except OSError:
                    pass
                if 'sample' not in ps and st.get('samples'):
                    ps['sample'] = st['samples'][0]
                fail = os.path.join(work, 'failure.json')
                if os.path.exists(fail):
                    f = json.load(open(fail))
                    if f.get('kind') == 'violation':
                        # replay + shrink through the normal runner
                        r = run_jobs(common.run_shard, [(prop_id, s.name, 1000 + k, 200, fseed, s.budget_thorough, 1, {'db': os.path.join(work, 'db')})],
                                     1, lambda j: s.budget_thorough + 600, _lost_shard)[0]
                        if not r['failure'] and not r['harness_error']:
                            # the stored input did not reproduce under the runner: report the fuzzer's own (unshrunk) case
                            r['failure'] = {'kind': 'violation', 'clause': f['clause'], 'message': f['message'], 'frame': f.get('frame', ''),
                                            'case': f['case'], 'traceback': f.get('traceback', '')}
                        r['evaluations'] = 0
                        r['nt_hashes'] = []
                        extra.append(r)
                    else:
                        extra.append({'sub': s.name, 'shard': 1000 + k, 'seed': fseed, 'evaluations': 0, 'nt_hashes': [], 'labels': {}, 'discarded': 0,
                                      'excluded_known': {}, 'budget_skipped': 0, 'samples': [], 'failure': None, 'wall_s': 0.0,
                                      'harness_error': 'fuzz campaign: ' + f.get('message', '')[-3000:]})
                elif rc != 0 or not st.get('done'):
                    ps['inconclusive'] += 1      # killed at the budget or ended early: says nothing
                    try:
                        tail = open(os.path.join(work, 'log.txt'), errors='replace').read()[-600:]
                    except OSError:
                        tail = ''
                    ps.setdefault('inconclusive_log', []).append('rc=%s executions=%s ...%s' % (rc, st.get('executions'), tail))
            if block and running:
                time.sleep(0.2)

        env = dict(os.environ)
        while todo or running:
            while todo and len(running) < args.jobs:
                s, k, work, runs, fseed = todo.pop(0)
                os.makedirs(work, exist_ok=True)
                log = open(os.path.join(work, 'log.txt'), 'w')
                proc = subprocess.Popen([sys.executable, '-m', 'vt.fuzz', prop_id, s.name, '--runs', str(runs), '--seed', str(fseed), '--work', work],
                                        stdout=log, stderr=subprocess.STDOUT, env=env, cwd=VERIF)
                running.append((s, k, work, runs, fseed, proc, time.time()))
            reap(block=True)
        for ps in info['subchecks'].values():
            for key in ('campaigns', 'executions', 'evaluations', 'distinct_nontrivial', 'corpus_units', 'inconclusive'):
                info[key] += ps[key]
        info['wall_s'] = round(time.time() - t_start, 1)
    finally:
        for item in procs:
            pass
        shutil.rmtree(work_root, ignore_errors=True)
    return info, extra


def main(argv=None):
    ap = argparse.ArgumentParser()
    ap.add_argument('prop')
    ap.add_argument('--tier', default=os.environ.get('VERIF_TIER', 'quick'), choices=['quick', 'thorough'])
    ap.add_argument('--replay', default=None)
    ap.add_argument('--sub', default=None, help='run only this sub-check (debugging; evidence is not written)')
    ap.add_argument('--n', type=int, default=None)
    ap.add_argument('--shards', type=int, default=None)
    ap.add_argument('--jobs', type=int, default=int(os.environ.get('VERIF_JOBS', '16')))
    args = ap.parse_args(argv)
    prop_id = args.prop.upper()
    try:
        seed = int(os.environ.get('VERIF_SEED', '1'))
    except ValueError:
        seed = 1
    t0 = time.time()
    os.environ['VERIF_TIER'] = args.tier      # property modules may scale their generators with the tier

    try:
        mod = common.load_module(prop_id)
    except Exception:
        import traceback
        traceback.print_exc()
        print('HARNESS-ERROR property=%s cannot import check module' % prop_id)
        return 2

    # ---- single replay ------------------------------------------------------------------------------
    if args.replay:
        status, info = common.run_replay(prop_id, args.replay)
        if status == 'violation':
            print('replayed %s: %s -- %s' % (args.replay, info[0], info[1]))
            print('VIOLATION property=%s replay=%s' % (prop_id, args.replay))
            return 1
        if status == 'known':
            print('KNOWN-FINDING: property=%s %s' % (prop_id, info[0].get('what', info[1])))
            return 0
        if status == 'harness':
            print('HARNESS-ERROR property=%s\n%s' % (prop_id, info))
            return 2
        print('replay %s: property holds (%s)' % (args.replay, info or 'ok'))
        return 0

    subs = [s for s in mod.SUBCHECKS if args.sub in (None, s.name)]
    if not subs:
        print('HARNESS-ERROR property=%s no such sub-check' % prop_id)
        return 2

    violations = []   # (replay path, clause, message)
    harness_errors = []
    known_lines = collections.OrderedDict()

    case_limit = float(os.environ.get('VERIF_CASE_LIMIT', '300'))
    pool = None
    if True:
        # ---- replay tier: every saved case first -----------------------------------------------------
        saved = sorted(f for f in glob.glob(os.path.join(VERIF, 'replays', prop_id, '*.json')) if not os.path.basename(f).startswith('timeout-'))
        replayed = 0
        for path, (status, info) in run_jobs(common._replay_worker, [(prop_id, p) for p in saved], args.jobs, lambda j: case_limit + 60,
                                              lambda j, why: (j[1], ('harness', 'replay ' + why))):
            replayed += 1
            if status == 'violation':
                violations.append((path, info[0], info[1]))
            elif status == 'known':
                known_lines[info[0].get('id', '?')] = info[0].get('what', '')
            elif status == 'harness':
                harness_errors.append('replay %s: %s' % (path, info))

        # ---- generated tier ---------------------------------------------------------------------------
        jobs = []
        for s in subs:
            n = args.n or (s.quick if args.tier == 'quick' else s.thorough)
            k = args.shards or (s.shards_quick if args.tier == 'quick' else s.shards_thorough)
            budget = s.budget_quick if args.tier == 'quick' else s.budget_thorough
            for shard in range(k):
                jobs.append((prop_id, s.name, shard, n, common.derive_seed(seed, prop_id, s.name, shard), budget, k))
        # longest first would need timing knowledge; keep declaration order, imap_unordered balances
        results = run_jobs(common.run_shard, jobs, args.jobs, lambda j: j[5] + min(case_limit, j[5]) + 30, _lost_shard)

        # ---- coverage-guided tier (thorough only, when atheris can be imported) -----------------------
        fuzz_info = None
        if args.tier == 'thorough' and os.environ.get('VERIF_FUZZ', '1') != '0' and not any(r['failure'] for r in results):
            fuzz_info, fuzz_results = run_fuzz_stage(prop_id, [s for s in subs if s.cases is None], seed, args, pool)
            results.extend(fuzz_results)

    results.sort(key=lambda r: (r['sub'], r['shard']))
    per_sub = collections.OrderedDict()
    nt_all = set()
    labels = collections.Counter()
    samples = []
    evaluations = 0
    discarded = 0
    budget_skipped = 0
    lost_shards = []
    timeout_cases = []
    excluded = collections.Counter()
    for r in results:
        ps = per_sub.setdefault(r['sub'], {'evaluations': 0, 'distinct_nontrivial': set(), 'shards': 0, 'seeds': [],
                                           'discarded': 0, 'budget_skipped': 0, 'wall_s': 0.0, 'labels': collections.Counter()})
        ps['evaluations'] += r['evaluations']
        ps['distinct_nontrivial'].update((r['sub'], h) for h in r['nt_hashes'])
        ps['shards'] += 1
        ps['seeds'].append(r['seed'])
        ps['discarded'] += r['discarded']
        ps['budget_skipped'] += r['budget_skipped']
        ps['wall_s'] = max(ps['wall_s'], r['wall_s'])
        ps['labels'].update(r['labels'])
        evaluations += r['evaluations']
        discarded += r['discarded']
        budget_skipped += r['budget_skipped']
        if r.get('lost'):
            lost_shards.append('%s shard %d: %s' % (r['sub'], r['shard'], r['lost'][:300]))
        nt_all.update((r['sub'], h) for h in r['nt_hashes'])
        for l, c in r['labels'].items():
            labels[r['sub'] + ':' + l] += c
        excluded.update(r['excluded_known'])
        timeout_cases.extend(r.get('timeout_cases', []))
        for tcase in r.get('timeout_cases', []):
            # inconclusive cases are kept (git-ignored) so that they can be looked at: ./check ID --replay <file>
            rdir = os.path.join(common.REPLAY_DIR, prop_id)
            os.makedirs(rdir, exist_ok=True)
            with open(os.path.join(rdir, 'timeout-%s-%08x.json' % (r['sub'], common.case_hash(tcase) & 0xffffffff)), 'w') as fh:
                json.dump({'property': prop_id, 'subcheck': r['sub'], 'case': tcase, 'clause': 'case_timeout'}, fh, indent=1, sort_keys=True)
        if r['shard'] == 0:
            samples.extend(r['samples'][:2])
        if r['harness_error']:
            harness_errors.append('%s shard %d: %s' % (r['sub'], r['shard'], r['harness_error']))
        for f in (r.get('failures') or ([r['failure']] if r['failure'] else [])):
            rdir = os.path.join(common.REPLAY_DIR, prop_id)
            os.makedirs(rdir, exist_ok=True)
            h = '%08x' % (common.case_hash(f['case']) & 0xffffffff)
            path = os.path.join(rdir, 'found-%s-%s.json' % (r['sub'], h))
            with open(path, 'w') as fh:
                json.dump({'property': prop_id, 'subcheck': r['sub'], 'case': f['case'], 'clause': f['clause'],
                           'message': f['message'][:2000], 'frame': f['frame'], 'seed': r['seed'], 'verif_seed': seed,
                           'tier': args.tier, 'traceback': f['traceback']}, fh, indent=1, sort_keys=True)
            violations.append((path, f['clause'], f['message']))

    # line coverage of the library (diagnostics of generator reach; only when VERIF_COVERAGE=1; shard 0 of every sub-check)
    cov_stmt, cov_miss = {}, {}
    for r in results:
        for f, d in (r.get('coverage') or {}).items():
            cov_stmt.setdefault(f, set()).update(d['statements'])
            if f in cov_miss:
                cov_miss[f] &= set(d['missing'])
            else:
                cov_miss[f] = set(d['missing'])
    line_coverage = {f: {'statements': len(cov_stmt[f]), 'executed': len(cov_stmt[f]) - len(cov_miss[f]),
                         'missing_lines': _ranges(sorted(cov_miss[f]))} for f in sorted(cov_stmt)}

    known = common.load_known(prop_id)
    for e in known:
        # a listed finding is reported on every run (it is a defect of the tree, whether or not this run's
        # generator happened to hit it); excluded counts say how often it was met
        known_lines.setdefault(e.get('id', '?'), e.get('what', ''))

    missing = []
    for s in subs:
        ps = per_sub.get(s.name)
        for c in s.classes:
            if ps is None or ps['labels'].get(c, 0) == 0:
                missing.append(s.name + ':' + c)

    wall = time.time() - t0
    if args.sub is None and args.n is None and args.shards is None:
        os.makedirs(common.EVIDENCE_DIR, exist_ok=True)
        ev = {
            'property_id': prop_id,
            'tier': args.tier,
            'seed': seed,
            'level': 'exploration',
            'coverage': {
                'evaluations': evaluations,
                'distinct_nontrivial': len(nt_all),
                'rule': mod.RULE,
                'samples': samples[:24],
                'exhaustive': False,
                'classes': dict(sorted(labels.items())),
                'missing_classes': missing,
                'discarded_by_assume': discarded,
                'budget_skipped': budget_skipped,
                'case_timeouts': timeout_cases[:4],
                'lost_shards': lost_shards,
                'coverage_guided': fuzz_info,
                'excluded_known': dict(excluded),
                'replays_rerun': replayed,
                'subchecks': {k: {'evaluations': v['evaluations'], 'distinct_nontrivial': len(v['distinct_nontrivial']),
                                  'shards': v['shards'], 'seeds': v['seeds'], 'discarded_by_assume': v['discarded'],
                                  'budget_skipped': v['budget_skipped'], 'max_shard_wall_s': round(v['wall_s'], 2)}
                              for k, v in per_sub.items()},
                'tree': REPO,
            },
            'assumptions': list(mod.ASSUMPTIONS),
            'wall_s': round(wall, 2),
            'violations': len(violations),
        }
        if line_coverage:
            anchored = getattr(mod, 'ANCHOR_FILES', None)
            ev['coverage']['line_coverage'] = {f: v for f, v in line_coverage.items() if anchored is None or f in anchored}
            ev['coverage']['line_coverage_all'] = line_coverage
        extra = getattr(mod, 'EXTRA_COVERAGE', None)
        if extra:
            ev['coverage'].update(extra)
        with open(os.path.join(common.EVIDENCE_DIR, prop_id + '.json'), 'w') as fh:
            json.dump(ev, fh, indent=1, sort_keys=True, default=common._json_default)

    print('%s tier=%s seed=%d: %d evaluations, %d distinct non-trivial, %d discarded, %d budget-skipped, %d replays, %.1fs'
          % (prop_id, args.tier, seed, evaluations, len(nt_all), discarded, budget_skipped, replayed, wall))
    for l in lost_shards:
        print('  INCONCLUSIVE ' + l)
    if fuzz_info and fuzz_info.get('available'):
        print('  coverage-guided: %d campaigns, %d executions, %d evaluated cases, %d corpus units, %d inconclusive, %.1fs'
              % (fuzz_info['campaigns'], fuzz_info['executions'], fuzz_info['evaluations'], fuzz_info['corpus_units'], fuzz_info['inconclusive'],
                 fuzz_info.get('wall_s', 0.0)))
    elif fuzz_info:
        print('  coverage-guided: ' + fuzz_info.get('note', 'unavailable'))
    for k, v in per_sub.items():
        print('  %-22s evals=%-7d nt=%-7d skipped=%-5d wall=%.1fs' % (k, v['evaluations'], len(v['distinct_nontrivial']),
                                                                     v['budget_skipped'], v['wall_s']))
    if missing:
        print('  WARNING: generator classes not reached: %s' % ', '.join(missing))
    for kid, what in known_lines.items():
        print('KNOWN-FINDING: property=%s %s (%s; met %d times in this run)' % (prop_id, what, kid, excluded.get(kid, 0)))
    if harness_errors:
        for h in harness_errors[:5]:
            print('HARNESS-ERROR property=%s %s' % (prop_id, h))
        if not violations:
            return 2
    if violations:
        seen = set()
        for path, clause, msg in violations:
            if path not in seen:
                print('  violated clause: %s -- %s' % (clause, str(msg)[:300].replace('\n', ' ')))
                print('VIOLATION property=%s replay=%s' % (prop_id, path))
                seen.add(path)
        return 1
    if evaluations == 0:
        print('HARNESS-ERROR property=%s nothing was evaluated' % prop_id)
        return 2
    return 0


if __name__ == '__main__':
    sys.exit(main())
