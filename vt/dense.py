"""Oracle toolbox: pure NumPy/SciPy, never imports scikit_tt.

Conventions: a TT with cores G_i of shape (r_i, m_i, n_i, r_{i+1}) denotes the array
    T[x_1..x_d, y_1..y_d] = G_1[:, x_1, y_1, :] ... G_d[:, x_d, y_d, :]
with open boundary ranks kept as leading / trailing axes when they are not 1.
"""
import numpy as np

LETTERS = 'abcdefghijklmnopqrstuvwxyzABCDEFGHIJKLMNOPQRSTUVWXYZ'


def contract(cores, keep_bounds=False):
    """dense value of a core list.

    returns array of shape rows + cols (boundary ranks must be 1) or, with keep_bounds,
    (r_0,) + rows + cols + (r_d,).  Reads nothing but the core arrays."""
    from vt.common import Violation
    d = len(cores)
    try:
        shapes = [np.shape(c) for c in cores]
        if any(len(sh) != 4 for sh in shapes) or any(shapes[i][3] != shapes[i + 1][0] for i in range(d - 1)):
            raise ValueError('core shapes %s do not chain' % (shapes,))
        x = np.asarray(cores[0])
        # x has shape (r0, m1, n1, ..., mk, nk, r_k)
        for i in range(1, d):
            x = np.tensordot(x, np.asarray(cores[i]), axes=([x.ndim - 1], [0]))
        # now shape (r0, m1, n1, m2, n2, ..., md, nd, rd)
        perm = [0] + [1 + 2 * i for i in range(d)] + [2 + 2 * i for i in range(d)] + [2 * d + 1]
        x = np.transpose(x, perm)
        if keep_bounds:
            return x
        if x.shape[0] != 1 or x.shape[-1] != 1:
            raise ValueError('boundary ranks %d, %d are not 1' % (x.shape[0], x.shape[-1]))
    except ValueError as exc:
        # a core list that cannot be contracted is what a library routine handed back (harness-built lists are checked by
        # construction): an inconsistent tensor train, not a harness error
        raise Violation('returned_inconsistent', 'the cores do not form a tensor train: %s' % exc)
    return x.reshape(x.shape[1:-1])


def matrix(cores):
    """matricisation (prod rows) x (prod cols) of the dense value"""
    x = contract(cores)
    d = len(cores)
    m = int(np.prod(x.shape[:d]))
    n = int(np.prod(x.shape[d:]))
    return x.reshape(m, n)


def scale_of(cores):
    """a-priori magnitude bound: product of the Frobenius norms of the cores"""
    s = 1.0
    for c in cores:
        s *= max(float(np.linalg.norm(np.asarray(c).ravel())), 1e-300)
    return s


def consistent(t):
    """C06 shape predicate: returns None if fine, else a description of the inconsistency"""
    try:
        order = t.order
        cores, rows, cols, ranks = t.cores, t.row_dims, t.col_dims, t.ranks
    except AttributeError as e:
        return 'missing attribute: %s' % e
    if not isinstance(cores, list):
        return 'cores is %s' % type(cores).__name__
    if len(cores) != order:
        return 'len(cores)=%d but order=%r' % (len(cores), order)
    if order < 1:
        return 'order=%r' % (order,)
    if len(rows) != order or len(cols) != order or len(ranks) != order + 1:
        return 'list lengths rows=%d cols=%d ranks=%d for order=%d' % (len(rows), len(cols), len(ranks), order)
    for i, c in enumerate(cores):
        if not isinstance(c, np.ndarray):
            return 'core %d is %s' % (i, type(c).__name__)
        if c.ndim != 4:
            return 'core %d has ndim %d' % (i, c.ndim)
        want = (ranks[i], rows[i], cols[i], ranks[i + 1])
        if tuple(c.shape) != tuple(int(w) for w in want):
            return 'core %d has shape %s but metadata says %s' % (i, c.shape, want)
        if min(c.shape) < 1:
            return 'core %d has an empty axis: %s' % (i, c.shape)
    return None


def unfold(x, k):
    """unfolding of a (vector-type) dense tensor after the first k modes"""
    return x.reshape(int(np.prod(x.shape[:k])), -1)


def tt_svd(x, rows, cols, tol=1e-13):
    """own exact TT-SVD of a dense operator array of shape rows+cols -> list of cores (ranks = numerical ranks)"""
    d = len(rows)
    p = [d * j + i for i in range(d) for j in range(2)]
    y = np.transpose(np.asarray(x).reshape(list(rows) + list(cols)), p)
    r = 1
    cores = []
    for i in range(d - 1):
        y = y.reshape(r * rows[i] * cols[i], -1)
        u, s, v = np.linalg.svd(y, full_matrices=False)
        k = max(1, int(np.sum(s > tol * max(s[0], 1e-300))))
        cores.append(u[:, :k].reshape(r, rows[i], cols[i], k))
        y = s[:k, None] * v[:k]
        r = k
    cores.append(y.reshape(r, rows[-1], cols[-1], 1))
    return cores


def op_cores(mat, dims):
    return tt_svd(np.asarray(mat), dims, dims)


def vec_cores(vec, dims):
    return tt_svd(np.asarray(vec), dims, [1] * len(dims))


def max_ranks(dims, cols=None):
    d = len(dims)
    cols = cols or [1] * d
    n = [dims[i] * cols[i] for i in range(d)]
    return [1] + [int(min(np.prod(n[:i]), np.prod(n[i:]))) for i in range(1, d)] + [1]


def gauge(cores, rng, cplx=False, cond=3.0):
    """insert G G^{-1} on every interior bond: same tensor, generic non-orthonormal representation"""
    cores = [np.array(c) for c in cores]
    for i in range(len(cores) - 1):
        r = cores[i].shape[3]
        a = rng.standard_normal((r, r)) + (1j * rng.standard_normal((r, r)) if cplx else 0)
        q1, _ = np.linalg.qr(a)
        a = rng.standard_normal((r, r)) + (1j * rng.standard_normal((r, r)) if cplx else 0)
        q2, _ = np.linalg.qr(a)
        s = np.exp(rng.uniform(0, np.log(cond), r))
        g = (q1 * s) @ q2
        gi = (q2.conj().T / s) @ q1.conj().T
        cores[i] = np.tensordot(cores[i], g, axes=([3], [0]))
        cores[i + 1] = np.tensordot(gi, cores[i + 1], axes=([1], [0]))
    return cores


def qr_right(cores):
    """own right-orthonormalisation (cores 1..d-1 become row-isometries); value unchanged"""
    cores = [np.array(c) for c in cores]
    for i in range(len(cores) - 1, 0, -1):
        r, m, n, rr = cores[i].shape
        q, rmat = np.linalg.qr(cores[i].reshape(r, m * n * rr).T)   # (mnr', k), (k, r)
        k = q.shape[1]
        cores[i] = q.T.reshape(k, m, n, rr)
        cores[i - 1] = np.tensordot(cores[i - 1], rmat.T, axes=([3], [0]))
    return cores


def qr_left(cores):
    cores = [np.array(c) for c in cores]
    for i in range(len(cores) - 1):
        r, m, n, rr = cores[i].shape
        q, rmat = np.linalg.qr(cores[i].reshape(r * m * n, rr))
        k = q.shape[1]
        cores[i] = q.reshape(r, m, n, k)
        cores[i + 1] = np.tensordot(rmat, cores[i + 1], axes=([1], [0]))
    return cores


def rand_unitary(rng, n, cplx):
    a = rng.standard_normal((n, n)) + (1j * rng.standard_normal((n, n)) if cplx else 0)
    q, r = np.linalg.qr(a)
    return q * (np.diagonal(r) / np.abs(np.diagonal(r)))


def herm(rng, n, cplx, spectrum):
    q = rand_unitary(rng, n, cplx)
    return (q * np.asarray(spectrum)) @ q.conj().T


def embed(k, site, dims):
    """embed a matrix acting on sites site..site+w-1 (w inferred) into the full space of `dims`"""
    dims = list(dims)
    size = k.shape[0]
    w = 0
    p = 1
    while p < size:
        p *= dims[site + w]
        w += 1
    if p != size:
        raise ValueError('embed: size mismatch')
    left = int(np.prod(dims[:site]))
    right = int(np.prod(dims[site + w:]))
    return np.kron(np.kron(np.eye(left), k), np.eye(right))


def rel_err(got, want, scale=None):
    got = np.asarray(got)
    want = np.asarray(want)
    if scale is None:
        scale = max(float(np.max(np.abs(want))) if want.size else 0.0, 1e-300)
    if got.shape != want.shape:
        return np.inf
    if got.size == 0:
        return 0.0
    return float(np.max(np.abs(got - want))) / scale


# ---------------------------------------------------------------------------------------------------------
# TT-form identities evaluated by the harness (for sizes that cannot be matricised)
# ---------------------------------------------------------------------------------------------------------

def tt_inner(a, b):
    """<a, b> = sum conj(a) * b over all entries, by transfer matrices (cores of equal dims)"""
    env = np.ones((1, 1), dtype=complex)
    for ca, cb in zip(a, b):
        # env[ra, rb]; ca[ra, m, n, ra'], cb[rb, m, n, rb']
        tmp = np.tensordot(env, np.conj(ca), axes=([0], [0]))       # (rb, m, n, ra')
        env = np.tensordot(tmp, cb, axes=([0, 1, 2], [0, 1, 2]))     # (ra', rb')
    return env[0, 0]


def tt_norm(a):
    return float(np.sqrt(max(tt_inner(a, a).real, 0.0)))


def tt_add(a, b):
    d = len(a)
    out = []
    for i, (ca, cb) in enumerate(zip(a, b)):
        ra, m, n, ra2 = ca.shape
        rb, _, _, rb2 = cb.shape
        dt = np.result_type(ca, cb)
        if d == 1:
            out.append((ca + cb).astype(dt))
        elif i == 0:
            out.append(np.concatenate([ca, cb], axis=3).astype(dt))
        elif i == d - 1:
            out.append(np.concatenate([ca, cb], axis=0).astype(dt))
        else:
            c = np.zeros((ra + rb, m, n, ra2 + rb2), dtype=dt)
            c[:ra, :, :, :ra2] = ca
            c[ra:, :, :, ra2:] = cb
            out.append(c)
    return out


def tt_scale(a, s):
    out = [np.array(c) for c in a]
    out[0] = out[0] * s
    return out


def tt_matmul(a, b):
    """operator product core by core: (a @ b)"""
    out = []
    for ca, cb in zip(a, b):
        c = np.einsum('amkb,cknd->acmnbd', ca, cb)
        s = c.shape
        out.append(c.reshape(s[0] * s[1], s[2], s[3], s[4] * s[5]))
    return out


def tt_adjoint(a):
    return [np.conj(np.transpose(c, [0, 2, 1, 3])) for c in a]


def tt_eye(dims):
    return [np.eye(n).reshape(1, n, n, 1) for n in dims]


def tt_colsum(a):
    """1^T A as a vector-type TT (rows summed out)"""
    return [np.sum(c, axis=1, keepdims=True).transpose(0, 2, 1, 3) for c in a]


def tt_entry(a, rows, cols):
    v = np.ones((1,), dtype=complex)
    for c, i, j in zip(a, rows, cols):
        v = v @ c[:, i, j, :]
    return v[0]
