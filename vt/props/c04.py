"""C04 -- rank truncation is bounded in rank and in error."""
import numpy as np
from hypothesis import strategies as st

from scikit_tt.tensor_train import TT
from vt import dense, gen, build
from vt.common import Sub, Violation, require, target
from vt.build import close, require_consistent

PROPERTY_ID = 'C04'

RULE = ('Dense tensors/operators of order 1..4 (mode sizes 1..4) are drawn with prescribed structure: Gaussian (flat '
        'spectra), exactly low TT-rank, low rank plus noise of a drawn magnitude, geometrically decaying sums of rank-one '
        'terms, or zero; entry points TT(array, threshold, max_rank), TT(cores, max_rank), t.ortho(max_rank), '
        'ortho_right(max_rank) after a left sweep and ortho_left(max_rank) after a right sweep, with max_rank an int >= 1 or a '
        'per-bond list and threshold 0 or 10^[-12,-0.3]. Oracles are theorems evaluated with numpy.linalg.svd of the dense '
        'unfoldings: (a) every interior rank <= cap; (b) ||T-T~||_F^2 <= sum_k sum_{j>r_k} sigma_j(unfold_k T)^2 with r_k the '
        'resulting ranks (TT-SVD quasi-optimality, valid for any prefix truncation rule); (c) threshold only: ||T-T~||_F <= '
        'theta ||T||_F sqrt(D), D = number of discarded singular directions; (d) threshold 0 and no cap: exact. Non-trivial: '
        'the cap or the threshold actually discards something on some bond.')
RULE += (' ' + 'Added classes: objects with a history before the truncating call (partial sweeps, in-place changes), NumPy-scalar thresholds and caps for every entry point, integer-typed core lists (rounding judged relative to the cores), order-2 trains with modes of size 48..60 and a full-rank bond under caps 1..5.')

ASSUMPTIONS = [
    'oracle: numpy.linalg.svd of dense unfoldings; bounds carry a slack of 1e-9 * ||T||_F',
    'the exactly-zero tensor is only used with threshold 0 (the relative cut s/s[0] is undefined for s[0] = 0)',
    'error bounds for truncation during orthonormalisation are only claimed where the opposite side is orthonormal '
    '(ortho(), TT(cores, max_rank), one-sided sweep after the opposite sweep); a one-sided truncating sweep on an arbitrary '
    'representation is only checked for the rank cap',
    'TT(array, max_rank=...) takes an int cap (the constructor does not accept lists)',
]

SLACK = 1e-9


@st.composite
def tensor_spec(draw, max_order=4):
    d = draw(st.sampled_from([1, 2, 2, 3, 3, 3, 4, 4]))
    op = draw(st.sampled_from([False, False, True]))
    rows = [draw(st.sampled_from([1, 2, 3, 3, 4, 4])) for _ in range(d)]
    cols = [draw(st.sampled_from([1, 2, 2, 3])) for _ in range(d)] if op else [1] * d
    kind = draw(st.sampled_from(['gauss', 'gauss', 'lowrank', 'lowrank_noise', 'lowrank_noise', 'decay', 'decay', 'zero', 'flat', 'flat']))
    return {'rows': rows, 'cols': cols, 'kind': kind, 'cplx': draw(st.booleans()), 'seed': draw(gen.SEED),
            'rank': draw(st.integers(1, 3)), 'noise_exp': draw(st.integers(-10, -1)), 'decay': draw(st.sampled_from([0.5, 0.1, 0.01])),
            'scale_exp': draw(st.sampled_from([0, 0, 0, -9, -14, 7, -17, -30, 20]))}


def make_tensor(ts):
    rng = np.random.default_rng(ts['seed'])
    rows, cols, d = ts['rows'], ts['cols'], len(ts['rows'])
    shape = list(rows) + list(cols)

    def rnd(sh):
        return build.rand_array(rng, sh, ts['cplx'])

    def lowrank(r):
        ranks = [1] + [r] * (d - 1) + [1]
        cores = [rnd((ranks[i], rows[i], cols[i], ranks[i + 1])) for i in range(d)]
        return dense.contract(cores)

    k = ts['kind']
    if k == 'gauss':
        x = rnd(shape)
    elif k == 'lowrank':
        x = lowrank(ts['rank'])
    elif k == 'lowrank_noise':
        x = lowrank(ts['rank'])
        x = x / max(np.linalg.norm(x), 1e-300) + 10.0 ** ts['noise_exp'] * rnd(shape) / np.sqrt(np.prod(shape))
    elif k == 'decay':
        x = np.zeros(shape, dtype=complex if ts['cplx'] else float)
        for j in range(6):
            x = x + ts['decay'] ** j * lowrank(1) / np.sqrt(np.prod(shape))
    elif k == 'flat':
        # exactly flat spectra: 0/1 tensors whose unfoldings are (partial) permutation matrices -- singular values tie bit-wise
        # (identity, permutation, delta tensors); a cap then has to choose among equal values and still keep `cap` of them
        n = int(np.prod(shape))
        x = np.zeros(n, dtype=complex if ts['cplx'] else float)
        perm = rng.permutation(n)
        x[perm[: max(1, n // (2 if ts['rank'] == 1 else 1 + ts['rank']))]] = 1.0
        x = x.reshape(shape)
        if ts['rank'] == 3 and d >= 2:
            # a genuine permutation / diagonal structure between the first mode and the rest
            m0 = rows[0] * cols[0]
            rest = n // m0
            P = np.zeros((m0, rest))
            P[np.arange(min(m0, rest)), rng.permutation(rest)[: min(m0, rest)]] = 1.0
            x = np.transpose(P.reshape([rows[0], cols[0]] + [v for i in range(1, d) for v in (rows[i], cols[i])]),
                             [2 * i for i in range(d)] + [2 * i + 1 for i in range(d)]).astype(x.dtype)
    else:
        x = np.zeros(shape, dtype=complex if ts['cplx'] else float)
    return x * 10.0 ** ts.get('scale_exp', 0)      # relative thresholds and the bounds are scale-invariant


def unfold_spectra(x, rows, cols):
    """singular values of the d-1 unfoldings (bond k separates modes < k from modes >= k, modes = (row, col) pairs)"""
    d = len(rows)
    y = np.transpose(x, [j for i in range(d) for j in (i, d + i)])
    sizes = [rows[i] * cols[i] for i in range(d)]
    out = []
    for k in range(1, d):
        m = y.reshape(int(np.prod(sizes[:k])), int(np.prod(sizes[k:])))
        out.append(np.linalg.svd(m, compute_uv=False))
    return out


def tail_bound(spectra, ranks):
    tot = 0.0
    for k, s in enumerate(spectra):
        r = ranks[k + 1]
        r = len(s) if r == np.inf else int(r)
        tot += float(np.sum(s[r:] ** 2))
    return np.sqrt(tot)


def discarded_directions(rows, cols, ranks):
    d = len(rows)
    sizes = [rows[i] * cols[i] for i in range(d)]
    D = 0
    for i in range(d - 1):
        nsv = min(ranks[i] * sizes[i], int(np.prod(sizes[i + 1:])))
        D += nsv - ranks[i + 1]
    return D


def cap_of(case, d):
    c = case['cap']
    if c is None:
        return np.inf, [np.inf] * (d + 1)
    npint = bool(case.get('cap_numpy_int'))      # caps as NumPy integer scalars (documented alongside python ints)
    if isinstance(c, list):
        lst = [(np.inf if v is None else (np.int64(v) if npint else int(v))) for v in c]
        return lst, [(np.inf if v is None else int(v)) for v in c]     # (the list handed to the library, an independent copy of the requested caps)
    return (np.int64(c) if npint else int(c)), [1] + [int(c)] * (d - 1) + [1]


# ---------------------------------------------------------------------------------------------------------
# from a full array
# ---------------------------------------------------------------------------------------------------------

@st.composite
def array_case(draw):
    ts = draw(tensor_spec())
    cap = draw(st.sampled_from([None, None, 1, 1, 2, 2, 3, 4]))
    if ts['kind'] == 'zero':
        th = 0
    else:
        th = draw(st.one_of(st.just(0), st.floats(-12, -0.3).map(lambda e: float(10.0 ** e)), st.floats(-3, -0.3).map(lambda e: float(10.0 ** e))))
    return {'t': ts, 'cap': cap, 'threshold': th, 'cap_numpy_int': draw(st.sampled_from([False, False, True]))}


def body_array(case):
    ts = case['t']
    x = make_tensor(ts)
    rows, cols, d = ts['rows'], ts['cols'], len(ts['rows'])
    nx = float(np.linalg.norm(x))
    cap, caps = cap_of(case, d)
    th = case['threshold']
    kw = {}
    if th != 0:
        # (a third of the cases: the threshold as a NumPy scalar, e.g. an entry of an array of tolerances)
        kw['threshold'] = np.float64(th) if ts['seed'] % 3 == 0 else th
    elif ts['seed'] % 3 == 0:
        kw['threshold'] = np.float64(0.0)          # "no cut" written out, as a NumPy scalar
    if case['cap'] is not None:
        kw['max_rank'] = cap
    t = TT(x.copy(), **kw)
    require_consistent(t, 'consistent')
    require(t.row_dims == rows and t.col_dims == cols, 'dims', 'rows %s cols %s' % (t.row_dims, t.col_dims))
    lab = {ts['kind']}
    if ts['cplx']:
        lab.add('complex')
    if d == 1:
        lab.add('order1')
    if any(c > 1 for c in cols):
        lab.add('operator')
    if ts.get('scale_exp', 0):
        lab.add('rescaled')
    for k in range(1, d):
        require(t.ranks[k] <= caps[k], 'rank_cap', 'rank %d is %d > cap %s' % (k, t.ranks[k], caps[k]))
    y = dense.contract(t.cores)
    err = float(np.linalg.norm(y - x))
    spectra = unfold_spectra(x, rows, cols)
    full = [1] + [int(np.sum(s > 1e-13 * max(s[0], 1e-300))) for s in spectra] + [1]
    truncated = any(t.ranks[k] < full[k] for k in range(1, d))
    if truncated:
        lab.add('truncating')
    bound = tail_bound(spectra, t.ranks)
    if bound > 1e-6 * nx:
        target(err / bound, 'error / quasi-optimality bound')
    require(err <= bound + SLACK * max(nx, 1e-300) + 1e-300, 'quasi_optimal',
            'error %.3e exceeds the TT-SVD bound %.3e (ranks %s, cap %s, threshold %s)' % (err, bound, t.ranks, case['cap'], th))
    if th != 0 and case['cap'] is None:
        lab.add('threshold_only')
        D = discarded_directions(rows, cols, t.ranks)
        require(err <= th * nx * np.sqrt(D) + SLACK * nx, 'threshold_bound',
                'error %.3e > theta*||T||*sqrt(D) = %.3e (theta %.1e, D %d)' % (err, th * nx * np.sqrt(D), th, D))
    if th == 0 and case['cap'] is None:
        lab.add('exact')
        require(err <= 1e-11 * max(nx, 1e-300) + 1e-300, 'exact', 'threshold 0 / no cap: error %.3e for ||T|| = %.3e' % (err, nx))
    if th != 0 and case['cap'] is not None:
        lab.add('combined')
    if case['cap'] is not None and th == 0:
        lab.add('cap_only')
        # cap only: the bound of the statement, for the requested rank (a result cut harder than requested gets no weaker bound)
        breq = tail_bound(spectra, caps)
        require(err <= breq + SLACK * max(nx, 1e-300) + 1e-300, 'quasi_optimal',
                'error %.3e exceeds the TT-SVD bound %.3e for the requested max_rank %s (achieved ranks %s)' % (err, breq, case['cap'], t.ranks))
    return lab


# ---------------------------------------------------------------------------------------------------------
# from cores / during orthonormalisation
# ---------------------------------------------------------------------------------------------------------

@st.composite
def cores_case(draw):
    a = draw(gen.tt_spec(min_order=2, max_order=4, max_dim=4, max_rank=4, layouts=False, int_dtype=True))
    d = len(a['rows'])
    a['decay'] = draw(st.booleans())
    if draw(st.booleans()):
        cap = draw(st.sampled_from([1, 1, 2, 2, 3, 4]))
    else:
        cap = [None] + [draw(st.sampled_from([None, 1, 1, 2, 2, 3])) for _ in range(d - 1)] + [None]
        cap[0] = 1
        cap[-1] = 1
    # (the last three: the object has a history when the truncating call arrives -- a partial sweep, or a full one after which the
    # caller changed a core array in place)
    entry = draw(st.sampled_from(['ctor', 'ortho', 'left_then_right', 'right_then_left', 'left_only', 'right_only',
                                  'partial_left_then_ortho', 'partial_right_then_ortho', 'sweep_inplace_change_then_ortho']))
    if draw(st.sampled_from([False] * 23 + [True])):
        # two large modes and a full-rank bond (core matrices of 48 ... 60 rows and columns) under a small cap: for order 2 the bound
        # is the best rank-r error itself, so any decomposition that is only nearly optimal (randomised, iterative) exceeds it
        n1, n2 = draw(st.integers(48, 60)), draw(st.integers(48, 60))
        a['rows'], a['cols'], a['ranks'] = [n1, n2], [1, 1], [1, min(n1, n2), 1]
        a['decay'] = False
        a['int_dtype'] = False
        cap = draw(st.sampled_from([1, 2, 3, 5]))
        entry = draw(st.sampled_from(['ctor', 'ortho', 'left_then_right', 'right_then_left']))
    near_tie = False
    if draw(st.sampled_from([False] * 11 + [True])):
        # order 2: a first core that is orthonormal only up to 4e-6 (computed in single precision, stored in double) and two singular
        # values at the cut that differ by less than that -- the cut has to be made in an orthonormal gauge to keep the right one
        near_tie = True
        n1, n2, r = draw(st.integers(4, 6)), draw(st.integers(4, 6)), draw(st.integers(3, 4))
        a['rows'], a['cols'], a['ranks'] = [n1, n2], [1, 1], [1, r, 1]
        a['decay'], a['int_dtype'], a['cplx'] = False, False, False
        cap = r - 1
        entry = draw(st.sampled_from(['ctor', 'ortho']))
    return {'a': a, 'cap': cap, 'entry': entry, 'aliased': draw(st.sampled_from([False, False, False, True])) and not near_tie,
            'cap_numpy_int': draw(st.sampled_from([False, False, True])), 'near_tie': near_tie}


def fresh(cores):
    """copies of the core arrays that keep the aliasing pattern (one array object used at several sites stays one object)"""
    m = {}
    return [m.setdefault(id(c), c.copy()) for c in cores]


def body_cores(case):
    spec = case['a']
    cores = build.make_cores(spec)
    d = len(cores)
    if spec['decay'] and not spec.get('int_dtype'):
        # give the bonds a decaying spectrum: scale the slices of each interior bond
        for i in range(d - 1):
            r = cores[i].shape[3]
            w = 10.0 ** (-2.0 * np.arange(r))
            cores[i] = cores[i] * w[None, None, None, :]
    if case.get('near_tie'):
        rng_ = np.random.default_rng(spec['seed'] + 3)
        n1, n2, r = spec['rows'][0], spec['rows'][1], spec['ranks'][1]
        q1 = np.linalg.qr(rng_.standard_normal((n1, r)))[0]
        q2 = np.linalg.qr(rng_.standard_normal((n2, r)))[0]
        sv_ = np.array([1.0, 0.8, 0.6, 0.5][:r])
        sv_[r - 2] = sv_[r - 1] * (1 + 2e-6)                      # the two values at the cut, written into the second core
        dl = np.zeros(r)
        dl[r - 2], dl[r - 1] = -4e-6, 4e-6                      # column norms of the first core: 1 - 4e-6 and 1 + 4e-6
        cores = [(q1 * (1 + dl)).reshape(1, n1, 1, r), (sv_[:, None] * q2.T).reshape(r, n2, 1, 1)]
    if case.get('aliased'):
        # the same ndarray object at every site of equal shape (a padding / boundary vector used twice, TT([c] * d))
        seen = {}
        for j, c in enumerate(cores):
            cores[j] = seen.setdefault((c.shape, c.dtype.str), c)
    x = dense.contract(cores)
    nx = float(np.linalg.norm(x))
    cap, caps = cap_of(case, d)
    entry = case['entry']
    if isinstance(cap, list) and spec['seed'] % 2 == 0:
        # the caller's list of caps has been used before, on a train of rank one (a loop `for t in trains: t.ortho(max_rank=caps)`):
        # what is requested from the call below is still the list the caller wrote
        warm = TT([np.array(c[:1, :, :, :1]) for c in cores])
        warm.ortho(max_rank=cap)
        warm.ortho_left(max_rank=cap)
    if entry == 'ctor':
        t = TT(fresh(cores), max_rank=cap)
    else:
        t = TT(fresh(cores))
        if entry == 'ortho':
            r = t.ortho(max_rank=cap)
        elif entry == 'left_then_right':
            t.ortho_left()
            r = t.ortho_right(max_rank=cap)
        elif entry == 'right_then_left':
            t.ortho_right()
            r = t.ortho_left(max_rank=cap)
        elif entry == 'partial_left_then_ortho':
            t.ortho_left(start_index=min(1 + spec['seed'] % 2, d - 2))
            r = t.ortho(max_rank=cap)
        elif entry == 'partial_right_then_ortho':
            t.ortho_right(end_index=min(2 + spec['seed'] % 2, d - 1))
            r = t.ortho(max_rank=cap)
        elif entry == 'sweep_inplace_change_then_ortho':
            (t.ortho_left if spec['seed'] % 2 else t.ortho_right)()
            k = (spec['seed'] // 2) % d
            if not spec.get('int_dtype'):
                # a generic change of core k, written into the array the train holds; the tensor that is then truncated is the new one
                rng = np.random.default_rng(spec['seed'] + 5)
                t.cores[k] *= (1.0 + rng.uniform(0.5, 2.0, t.cores[k].shape))
                x = dense.contract(t.cores)
                nx = float(np.linalg.norm(x))
            r = t.ortho(max_rank=cap)
        elif entry == 'left_only':
            r = t.ortho_left(max_rank=cap)
        else:
            r = t.ortho_right(max_rank=cap)
        require(r is t, 'returns_self', 'sweep did not return self')
    require_consistent(t, 'consistent')
    if isinstance(cap, list) and entry not in ('partial_left_then_ortho', 'partial_right_then_ortho', 'sweep_inplace_change_then_ortho'):
        # the same list of caps once more on a fresh copy: a call that writes into its max_rank argument shows up here
        if entry == 'ctor':
            t2 = TT(fresh(cores), max_rank=cap)
        else:
            t2 = TT(fresh(cores))
            if entry == 'ortho':
                t2.ortho(max_rank=cap)
            elif entry == 'left_then_right':
                t2.ortho_left()
                t2.ortho_right(max_rank=cap)
            elif entry == 'right_then_left':
                t2.ortho_right()
                t2.ortho_left(max_rank=cap)
            elif entry == 'left_only':
                t2.ortho_left(max_rank=cap)
            else:
                t2.ortho_right(max_rank=cap)
        require(list(t2.ranks) == list(t.ranks), 'repeatable', 'second call with the same max_rank list: ranks %s, first call %s' % (t2.ranks, t.ranks))
    for k in range(1, d):
        require(t.ranks[k] <= caps[k], 'rank_cap', 'rank %d is %d > cap %s (%s)' % (k, t.ranks[k], caps[k], entry))
        require(t.ranks[k] <= spec['ranks'][k], 'rank_cap', 'rank %d grew from %d to %d' % (k, spec['ranks'][k], t.ranks[k]))
    lab = gen.spec_labels(spec)
    lab.add(entry)
    lab.add('cap_list' if isinstance(case['cap'], list) else 'cap_int')
    if max(spec['rows']) >= 48:
        lab.add('large_core_matrices')
    if case.get('near_tie'):
        lab.add('near_tie_in_nearly_orthonormal_gauge')
    if case.get('aliased') and len({id(c) for c in cores}) < d:
        lab.add('aliased_cores')
    spectra = unfold_spectra(x, spec['rows'], spec['cols'])
    full = [1] + [int(np.sum(s > 1e-13 * max(s[0], 1e-300))) for s in spectra] + [1]
    if any(caps[k] < full[k] for k in range(1, d)):
        lab.add('truncating')
    if spec['decay']:
        lab.add('decaying')
    if entry not in ('left_only', 'right_only'):
        y = dense.contract(t.cores)
        err = float(np.linalg.norm(y - x))
        # the bound of the statement: best rank-r errors of the unfoldings for the REQUESTED ranks r (a result that is cut harder than
        # requested does not get a weaker bound)
        bound = tail_bound(spectra, caps)
        # (no hypothesis.target() here: for order-2 trains and in the near-tie class the ratio error / bound sits at 1 by construction,
        # and Hypothesis' hill climbing on that plateau kept a shard busy for minutes without executing a single new case -- sweep
        # seeds 86 and 9x; the array entry points keep their target, which has no such plateau)
        # rounding: relative to the tensor, and -- the input being cores -- at the level of machine precision relative to the
        # representation (integer cores can cancel exactly: x = 0 or tiny although every core is O(1); the sweeps are backward
        # stable in the cores, not in the contracted value). For generic cores the second term is far below the first.
        rep = float(np.prod([np.linalg.norm(np.asarray(c_, dtype=complex)) for c_ in cores]))
        require(err <= bound + SLACK * max(nx, 1e-300) + 64 * np.finfo(float).eps * rep, 'quasi_optimal',
                '%s: error %.3e exceeds the bound %.3e (ranks %s -> %s, cap %s)' % (entry, err, bound, spec['ranks'], t.ranks, case['cap']))
    return lab


def nt(labels):
    return 'truncating' in labels


SUBCHECKS = [
    Sub('from_array', array_case(), body_array, nt, quick=1500, thorough=12000, shards_quick=4,
        classes=['truncating', 'threshold_only', 'cap_only', 'combined', 'exact', 'gauss', 'lowrank', 'lowrank_noise', 'decay',
                 'zero', 'complex', 'operator', 'order1']),
    Sub('from_cores', cores_case(), body_cores, nt, quick=1500, thorough=12000, shards_quick=4,
        classes=['truncating', 'ctor', 'ortho', 'left_then_right', 'right_then_left', 'left_only', 'right_only', 'cap_list',
                 'cap_int', 'decaying', 'complex']),
]
