"""C03 -- orthonormalisation preserves the tensor and yields orthonormal cores."""
import numpy as np
from hypothesis import strategies as st

from scikit_tt.tensor_train import TT
from vt import dense, gen, build
from vt.common import Sub, Violation, require
from vt.build import close, require_consistent

PROPERTY_ID = 'C03'
TOL = 1e-10

RULE = ('Hypothesis draws a TT (order 1..5, vector or operator, real/complex, mode sizes 1..3, ranks 1..5 incl. '
        'over-parameterised), a core class (generic / exactly rank-deficient cores built from thin factors / a zero core / the same '
        'ndarray object used for several cores), '
        'memory layout, the sweep (ortho_left, ortho_right, ortho) and, for the one-sided sweeps, every admissible '
        '(start,end) pair uniformly; entries from default_rng(seed). Invariants checked on before/after snapshots: dense value '
        'equal, processed cores are isometries on their side (Gram = I), no rank increases, metadata consistent, cores outside '
        'the touched window bit-identical, return value is self. Non-trivial: rank-deficient, over-parameterised, zero core, '
        'complex, size-1 mode or a partial sweep.')
RULE += (' ' + 'Added classes: nearly orthonormal cores (1e-7 ... 3e-6), an overall factor 1e-30 ... 1e8, and the same object swept again after the caller changed a swept core array in place.')

RULE += (' Added class: the progress bar of the left sweep switched on (progress=True, title string).')

ASSUMPTIONS = [
    'no truncation: threshold 0 and max_rank inf (defaults, or passed explicitly)',
    'start/end indices inside the documented ranges (0 <= start <= end <= d-2 for left sweeps, d-1 >= start >= end >= 1 for right sweeps)',
    'value tolerance 1e-10 relative to the product of core norms; Gram matrices to 1e-10',
]


@st.composite
def ortho_case(draw):
    a = draw(gen.tt_spec(min_order=1, max_order=5, max_dim=3, max_rank=4, int_dtype=True))
    d = len(a['rows'])
    if d > 1 and draw(st.booleans()):
        # widen one bond well beyond what the neighbouring cores can support
        a['ranks'][draw(st.integers(1, d - 1))] = draw(st.sampled_from([4, 5, 6]))
    klass = draw(st.sampled_from(['generic', 'generic', 'deficient', 'zero_core', 'aliased_cores', 'nearly_orthonormal', 'single_precision']))
    a['klass'] = klass
    a['which'] = draw(st.integers(0, d - 1))
    sweep = draw(st.sampled_from(['left', 'right', 'both']))
    case = {'a': a, 'sweep': sweep, 'explicit_args': draw(st.booleans()),
            # overall magnitude (carried by the first core, where `c * t` puts it): the sweeps are homogeneous
            'scale_exp': draw(st.sampled_from([0, 0, 0, -16, -20, -30, 8])),
            # the same object once more: a swept core array is changed in place by the caller, then the same sweep is requested again
            'again': draw(st.sampled_from([None, None, 'scale', 'shift'])),
            # the progress bar of the left sweep switched on (its output goes to a scratch stream)
            'progress': draw(st.sampled_from([False, False, False, True]))}
    if sweep == 'left' and d >= 2:
        if draw(st.booleans()):
            s = draw(st.integers(0, d - 2))
            e = draw(st.integers(s, d - 2))
            case['start'], case['end'] = s, e
    if sweep == 'right' and d >= 2:
        if draw(st.booleans()):
            s = draw(st.integers(1, d - 1))
            e = draw(st.integers(1, s))
            case['start'], case['end'] = s, e
    return case


def _quiet():
    import contextlib, io
    return contextlib.redirect_stdout(io.StringIO())


def make(spec):
    cores = build.make_cores(spec)
    rng = np.random.default_rng(spec['seed'] + 17)
    i = spec['which']
    if spec['klass'] == 'deficient':
        # replace core i by a product of thin factors: exact rank deficiency of both of its unfoldings
        r, m, n, rr = cores[i].shape
        k = 1
        f1 = build.rand_array(rng, (r, m, n, k), spec['cplx'])
        f2 = build.rand_array(rng, (k, rr), spec['cplx'])
        cores[i] = np.tensordot(f1, f2, axes=([3], [0]))
    elif spec['klass'] == 'zero_core':
        cores[i] = np.zeros_like(cores[i])
    elif spec['klass'] == 'nearly_orthonormal' and not spec.get('int_dtype'):
        # cores that are orthonormal only to single precision or up to a factor 1 + O(1e-6) (a train stored in float32 and read back,
        # an orthonormal train that was rescaled): "processed cores are isometries up to ROUNDING" -- there is still work to do
        qr = dense.qr_left if spec['which'] % 2 == 0 else dense.qr_right
        cores = [np.array(c) for c in qr([np.array(c, dtype=complex if spec['cplx'] else float) for c in cores])]
        if spec['seed'] % 2 == 0:
            cores = [c.astype(np.complex64 if np.iscomplexobj(c) else np.float32).astype(c.dtype) for c in cores]
        else:
            cores = [c * (1.0 + 3e-6 * rng.uniform(-1, 1)) for c in cores]
    elif spec['klass'] == 'single_precision' and not spec.get('int_dtype'):
        # cores stored in single precision (float32 / complex64 arrays): "up to rounding" then means the rounding of that precision
        cores = [np.asarray(c).astype(np.complex64 if np.iscomplexobj(c) else np.float32) for c in cores]
    elif spec['klass'] == 'aliased_cores':
        # the same ndarray object is used for every core of equal shape (e.g. a product state built as TT([c] * d))
        seen = {}
        for j, c in enumerate(cores):
            key = (c.shape, c.dtype.str)
            if key in seen:
                cores[j] = seen[key]
            else:
                seen[key] = c
    return TT(cores)


def gram_left(core):
    r, m, n, rr = core.shape
    u = core.reshape(r * m * n, rr)
    return u.conj().T @ u


def gram_right(core):
    r, m, n, rr = core.shape
    v = core.reshape(r, m * n * rr)
    return v @ v.conj().T


def body_ortho(case):
    spec = case['a']
    t = make(spec)
    d = t.order
    if case.get('scale_exp', 0) and not spec.get('int_dtype') and spec['klass'] != 'single_precision':       # (float32 ends at 1e-38 / 3e38)
        t.cores[0] = t.cores[0] * 10.0 ** case['scale_exp']
    before = build.snapshot(t)
    x = dense.contract(t.cores)
    scale = dense.scale_of(t.cores) if spec['klass'] != 'zero_core' else max(dense.scale_of([c for j, c in enumerate(t.cores) if j != spec['which']]), 1.0)
    # ("no cap" written out -- as numpy.inf itself, as another infinite float object, or as a NumPy scalar)
    kw = {'threshold': 0, 'max_rank': [np.inf, float('inf') * 2, np.float64('inf')][spec['seed'] % 3]} if case['explicit_args'] else {}
    sweep = case['sweep']
    lab = gen.spec_labels(spec)
    lab.add(spec['klass'])
    lab.add(sweep)
    if case.get('scale_exp', 0) and not spec.get('int_dtype') and spec['klass'] != 'single_precision':
        lab.add('rescaled')

    kwl = dict(kw, progress=True, string='sweep') if case.get('progress') else kw
    if case.get('progress') and sweep == 'left':
        lab.add('progress_bar_on')

    def run_sweep():
        if sweep == 'left':
            s, e = case.get('start', 0), case.get('end', d - 2)
            if 'start' in case:
                with _quiet():
                    ret = t.ortho_left(start_index=s, end_index=e, **kwl)
                if (s, e) != (0, d - 2):
                    lab.add('partial')
            else:
                with _quiet():
                    ret = t.ortho_left(**kwl)
            processed = list(range(s, e + 1))
            touched = set(range(s, e + 2)) if processed else set()
            side = 'left'
        elif sweep == 'right':
            s, e = case.get('start', d - 1), case.get('end', 1)
            if 'start' in case:
                ret = t.ortho_right(start_index=s, end_index=e, **kw)
                if (s, e) != (d - 1, 1):
                    lab.add('partial')
            else:
                ret = t.ortho_right(**kw)
            processed = list(range(s, e - 1, -1))
            touched = set(range(e - 1, s + 1)) if processed else set()
            side = 'right'
        else:
            ret = t.ortho(**kw)
            processed = list(range(d - 1, 0, -1))
            touched = set(range(d))
            side = 'right'
        return ret, processed, touched, side

    ret, processed, touched, side = run_sweep()
    require(ret is t, 'returns_self', 'the sweep did not return self')
    require_consistent(t, 'consistent')
    require(t.row_dims == before[1] and t.col_dims == before[2] and t.order == before[4], 'dims_unchanged',
            'dims changed: rows %s cols %s' % (t.row_dims, t.col_dims))
    for k in range(d + 1):
        require(t.ranks[k] <= before[3][k], 'rank_monotone', 'rank %d grew from %d to %d' % (k, before[3][k], t.ranks[k]))
    require(t.ranks[0] == 1 and t.ranks[-1] == 1, 'rank_monotone', 'boundary ranks %s' % t.ranks)
    single = spec['klass'] == 'single_precision' and not spec.get('int_dtype')
    tol = 2e-5 if single else TOL            # (eps of float32 is 1.2e-7)
    close(dense.contract(t.cores), x, tol, scale, 'value_preserved', '%s sweep' % sweep)
    for i in processed:
        g = gram_left(t.cores[i]) if side == 'left' else gram_right(t.cores[i])
        close(g, np.eye(g.shape[0]), tol, 1.0, 'isometry', 'core %d (%s-orthonormal)' % (i, side))
    for i in range(d):
        if i not in touched:
            same = t.cores[i].shape == before[0][i].shape and np.array_equal(t.cores[i], before[0][i])
            require(same, 'window', 'core %d lies outside the requested bonds but changed' % i)
    if case.get('again') and processed and not spec.get('int_dtype'):
        # the caller changes a swept core array in place (same ndarray object) and asks for the same sweep again
        k = processed[spec['seed'] % len(processed)]
        if np.all(np.isfinite(t.cores[k])) and t.cores[k].flags.writeable:
            if case['again'] == 'scale':
                t.cores[k] *= 3.0
            else:
                t.cores[k] += 0.5 * max(float(np.max(np.abs(t.cores[k]))), 1e-300)
            x2 = dense.contract(t.cores)
            scale2 = max(dense.scale_of(t.cores), 1e-300)
            ranks2 = list(t.ranks)
            ret, processed, touched, side = run_sweep()
            require(ret is t, 'returns_self', 'the sweep did not return self')
            require_consistent(t, 'consistent')
            for q in range(d + 1):
                require(t.ranks[q] <= ranks2[q], 'rank_monotone', 'second sweep: rank %d grew from %d to %d' % (q, ranks2[q], t.ranks[q]))
            close(dense.contract(t.cores), x2, tol, scale2, 'value_preserved', 'second %s sweep after core %d was changed in place' % (sweep, k))
            for i in processed:
                g = gram_left(t.cores[i]) if side == 'left' else gram_right(t.cores[i])
                close(g, np.eye(g.shape[0]), tol, 1.0, 'isometry', 'core %d (%s-orthonormal) after the second sweep; core %d had been changed in place' % (i, side, k))
            lab.add('swept_again_after_in_place_change')
    return lab


def nt(labels):
    return bool({'deficient', 'zero_core', 'aliased_cores', 'nearly_orthonormal', 'overparam', 'complex', 'size1mode', 'partial', 'order1', 'mixed_size1'} & set(labels))


SUBCHECKS = [
    Sub('ortho', ortho_case(), body_ortho, nt, quick=800, thorough=12000, shards_quick=8,
        classes=['left', 'right', 'both', 'partial', 'deficient', 'zero_core', 'aliased_cores', 'nearly_orthonormal', 'single_precision', 'overparam', 'complex', 'size1mode', 'order1', 'rescaled', 'swept_again_after_in_place_change']),
]
