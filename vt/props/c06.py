"""C06 -- operands keep their value: no hidden mutation or aliasing across calls (histories)."""
import io
import os
import itertools
import contextlib
import numpy as np
from hypothesis import strategies as st

import scikit_tt.tensor_train as ttm
from scikit_tt.tensor_train import TT
import scikit_tt.solvers.sle as sle
import scikit_tt.solvers.evp as evp
import scikit_tt.solvers.ode as ode
import scikit_tt.data_driven.tdmd as tdmd
import scikit_tt.data_driven.tedmd as tedmd
import scikit_tt.data_driven.regression as reg
import scikit_tt.data_driven.transform as tdt
import scikit_tt.models as mdl
import scikit_tt.slim as slim
from vt import dense, gen, build
from vt.common import Sub, Violation, require
from vt.build import require_consistent

PROPERTY_ID = 'C06'

RULE = ('Histories: Hypothesis draws a universe (order 2..3, mode size 2..3) and a sequence of 10..40 operation steps over a '
        'pool of live tensor trains, each with a shadow (core copies, metadata, dense value). Operations: all binary operators, '
        'tensordot (4 modes, overwrite on/off), rank_tensordot, concatenate (TT / core list), transpose / conj / rank_transpose '
        '(overwrite on/off), copy, diag, squeeze, tt2qtt / qtt2tt, svd / pinv (overwrite on/off, ortho flags), norms, read-outs, '
        'residual_error, in-place ortho_left / ortho_right / ortho with and without truncation, and solver / integrator / '
        'data-driven routines on pool members (sle.als/mals, evp.als with number_ev 1..2 and deflation, power_method, explicit / '
        'implicit Euler, trapezoidal rule, HOD, adaptive step size, four splittings, tdvp1site / tdvp2site / tdvp, krylov, '
        'tdmd_exact / standard, regression.arr). Objects are created with rank-1 bonds, F-ordered and transposed-view cores where '
        'LAPACK works in place. After every step every live object that the step is not documented to modify must still have its '
        'shadow\'s dense value and shape metadata and be consistent; every returned TT is checked for consistency and joins the '
        'pool. A second sub-check enumerates the finite cross product {producer} x {layout class} x {in-place follow-up} '
        'completely; a third calls TT-returning API functions that no other check receives. Non-trivial: a history containing an '
        'in-place or overwrite step applied to an object produced by an earlier step from still-live operands.')
ASSUMPTIONS = [
    'oracle: shadows kept by the harness; "unchanged" means equal shape metadata and equal dense value to 1e-10 relative '
    '(bit-identical cores are accepted immediately)',
    'solver rules use well-conditioned harness-made operators and admissible fresh guesses; a library exception inside a rule is '
    'counted (label rule_exception) but is not a C06 violation -- the invariant is still checked afterwards for non-in-place rules',
    'the target of an in-place or overwrite operation may change; a value-preserving in-place sweep must preserve its value',
    'enumerated cross product: exhaustive over the listed producers / layout classes / follow-ups',
]

TOL = 1e-9


# ---------------------------------------------------------------------------------------------------------
# pool bookkeeping
# ---------------------------------------------------------------------------------------------------------

class Pool(object):
    def __init__(self, d, n, rng):
        self.d, self.n, self.rng = d, n, rng
        self.items = []          # dicts: t, snap, kind, born, from_live (derived from live operands), tag
        self.step = 0
        self.labels = set()

    def dims(self):
        return [self.n] * self.d

    def add(self, t, kind='other', derived=False, tag=''):
        if len(self.items) >= 12:
            # retire the oldest derived object (it simply stops being tracked)
            for k, it in enumerate(self.items):
                if it['derived']:
                    self.items.pop(k)
                    break
            else:
                self.items.pop(0)
        self.items.append({'t': t, 'snap': build.snapshot(t), 'kind': kind, 'born': self.step, 'derived': derived, 'tag': tag})
        return self.items[-1]

    def find(self, t):
        for it in self.items:
            if it['t'] is t:
                return it
        return None

    def is_vec(self, t):
        return isinstance(t, TT) and t.row_dims == self.dims() and t.col_dims == [1] * self.d and t.ranks[0] == 1 and t.ranks[-1] == 1

    def is_op(self, t):
        return isinstance(t, TT) and t.row_dims == self.dims() and t.col_dims == self.dims() and t.ranks[0] == 1 and t.ranks[-1] == 1

    def pick(self, pred, idx):
        c = [it for it in self.items if pred(it)]
        if not c:
            return None
        return c[idx % len(c)]

    def new_vec(self, layout='C', ranks=None, cplx=False, kind='vec'):
        d, n = self.d, self.n
        mr = dense.max_ranks(self.dims())
        if ranks is None:
            ranks = [1] + [int(self.rng.integers(1, mr[i] + 1)) for i in range(1, d)] + [1]
        cores = [build.rand_array(self.rng, (ranks[i], n, 1, ranks[i + 1]), cplx, 'normal', layout) for i in range(d)]
        return self.add(TT(cores), kind=kind, tag='new_vec/' + layout)

    def new_op(self, herm=False, spd=False, layout='C', cplx=False):
        d, n = self.d, self.n
        N = n ** d
        a = self.rng.standard_normal((N, N)) + (1j * self.rng.standard_normal((N, N)) if cplx else 0)
        if herm or spd:
            a = (a + a.conj().T) / 2
        if spd:
            a = np.eye(N) + 0.3 * a / max(np.linalg.norm(a, 2), 1e-12)
        cores = dense.op_cores(a, self.dims())
        if layout == 'F':
            cores = [np.asfortranarray(c) for c in cores]
        return self.add(TT([np.array(c, order='K') for c in cores]), kind='spd' if spd else ('herm' if herm else 'op'), tag='new_op')

    def fresh_guess(self, cplx=False):
        """admissible maximal-or-smaller rank vector with full-rank interfaces (joins the pool as a live operand)"""
        mr = dense.max_ranks(self.dims())
        ranks = [1] + [int(self.rng.integers(1, mr[i] + 1)) for i in range(1, self.d)] + [1]
        for i in range(self.d):
            ranks[i + 1] = min(ranks[i + 1], ranks[i] * self.n)
        for i in range(self.d - 1, -1, -1):
            ranks[i] = min(ranks[i], self.n * ranks[i + 1])
        return self.new_vec(ranks=ranks, cplx=cplx, kind='vec')

    def check(self, modified, what):
        """invariant after a step. modified: {id(t): 'preserve' | 'respecified'}"""
        for it in self.items:
            t = it['t']
            mode = modified.get(id(t))
            if mode is None:
                msg = build.unchanged(t, it['snap'])
                if msg:
                    raise Violation('operand_changed', 'after %s: live object #%d (%s, created at step %d) %s'
                                    % (what, self.items.index(it), it['tag'], it['born'], msg))
            else:
                cm = dense.consistent(t)
                if cm:
                    raise Violation('inconsistent_after_inplace', 'after %s: target is inconsistent: %s' % (what, cm))
                if mode == 'preserve':
                    old = it['snap']
                    if old[0][0].shape[0] == 1 and old[0][-1].shape[3] == 1 and all(np.all(np.isfinite(c)) for c in old[0]):
                        a = dense.contract(t.cores)
                        b = dense.contract(old[0])
                        sc = max(dense.scale_of(old[0]), 1e-300)
                        if a.shape != b.shape or not float(np.max(np.abs(a - b))) <= TOL * sc:
                            raise Violation('inplace_value_changed', 'after %s: value-preserving in-place operation changed the value' % what)
                it['snap'] = build.snapshot(t)

    def absorb(self, results, tag, derived=True):
        for r in results:
            if isinstance(r, TT) and self.find(r) is None:
                cm = dense.consistent(r)
                if cm:
                    raise Violation('returned_inconsistent', '%s returned an inconsistent tensor train: %s' % (tag, cm))
                self.add(r, kind='vec' if self.is_vec(r) else ('op' if self.is_op(r) else 'other'), derived=derived, tag=tag)


# ---------------------------------------------------------------------------------------------------------
# operations of the history machine.  Each returns (results, modified) or None when not applicable.
# ---------------------------------------------------------------------------------------------------------

def any_tt(it):
    return True


def bounded(it):
    t = it['t']
    return t.ranks[0] == 1 and t.ranks[-1] == 1


def small(it):
    t = it['t']
    return bounded(it) and float(np.prod([float(a) * b for a, b in zip(t.row_dims, t.col_dims)])) <= 4096 and max(t.ranks) <= 16


def finite_nonzero(pool, it):
    t = it['t']
    v = dense.contract(t.cores)
    nv = np.linalg.norm(v)
    return np.all(np.isfinite(v)) and 1e-6 < nv < 1e6


OPS = {}


def op(name):
    def deco(f):
        OPS[name] = f
        return f
    return deco


@op('ctor')
def _ctor(pool, s):
    """library constructors: a new object every time, with the documented value, whatever earlier results went through"""
    import scikit_tt.tensor_train as ttm
    dims = list(pool.dims())
    d = len(dims)
    k = s['k'] % 5
    if k == 0:
        t, want = ttm.eye(dims), np.eye(int(np.prod(dims)))
    elif k == 1:
        t, want = ttm.ones(dims, [1] * d), np.ones((int(np.prod(dims)), 1))
    elif k == 2:
        t, want = ttm.zeros(dims, [1] * d), np.zeros((int(np.prod(dims)), 1))
    elif k == 3:
        t, want = ttm.uniform(dims), None
    else:
        idx = [s['j'] % m for m in dims]
        t = ttm.unit(dims, idx)
        want = np.zeros(dims)
        want[tuple(idx)] = 1
        want = want.reshape(-1, 1)
    for it in pool.items:
        if it['t'] is t:
            raise Violation('sibling_result_changed', 'a constructor handed back the live object created at step %d' % it['born'])
    if want is not None:
        got = dense.matrix(t.cores)
        if got.shape != want.shape or np.max(np.abs(got - want)) > 1e-12:
            raise Violation('sibling_result_changed', 'constructor (kind %d) does not return its documented value any more' % k)
    return [t], {}


@op('new_vec')
def _new_vec(pool, s):
    pool.new_vec(layout=['C', 'F', 'T'][s['k'] % 3], cplx=s['flag'], ranks=[1] * (pool.d + 1) if s['j'] % 3 == 0 else None)
    return [], {}


@op('new_op')
def _new_op(pool, s):
    pool.new_op(herm=s['j'] % 2 == 0, spd=s['k'] % 3 == 0, layout='F' if s['flag'] else 'C')
    return [], {}


@op('add')
def _add(pool, s):
    a = pool.pick(small, s['i'])
    if a is None:
        return None
    b = pool.pick(lambda it: small(it) and it['t'].row_dims == a['t'].row_dims and it['t'].col_dims == a['t'].col_dims, s['j'])
    r = a['t'] + b['t'] if s['flag'] else a['t'] - b['t']
    return [r], {}


@op('scalar')
def _scalar(pool, s):
    a = pool.pick(any_tt, s['i'])
    c = [2, -1.5, 0.5 + 1j, np.float64(3.0)][s['k'] % 4]
    return [c * a['t'] if s['flag'] else a['t'] * c], {}


@op('matmul')
def _matmul(pool, s):
    a = pool.pick(lambda it: small(it) and pool.is_op(it['t']), s['i'])
    if a is None:
        a = pool.new_op()
    b = pool.pick(lambda it: small(it) and it['t'].row_dims == a['t'].col_dims, s['j'])
    if b is None:
        return None
    r = a['t'] @ b['t'] if s['flag'] else a['t'].dot(b['t'])
    return [r], {}


@op('tensordot')
def _tensordot(pool, s):
    a = pool.pick(lambda it: small(it) and it['t'].order <= 4, s['i'])
    if a is None:
        return None
    mode = ttm_modes[s['k'] % 4]
    ta = a['t']
    cands = []
    for it in pool.items:
        tb = it['t']
        if not small(it) or tb.order > 4:
            continue
        for k in range(1, min(ta.order, tb.order) + 1):
            sa = slice(ta.order - k, ta.order) if mode.startswith('last') else slice(0, k)
            sb = slice(tb.order - k, tb.order) if mode.endswith('last') else slice(0, k)
            if ta.row_dims[sa] == tb.row_dims[sb] and ta.col_dims[sa] == tb.col_dims[sb]:
                cands.append((it, k))
    if not cands:
        return None
    b, k = cands[s['j'] % len(cands)]
    ow = s['flag'] and a['derived'] and b is not a     # overwriting self while it is also the other operand is not meaningful
    r = ta.tensordot(b['t'], k, mode=mode, overwrite=ow)
    return [r], ({id(ta): 'respecified'} if ow else {})


ttm_modes = ['last-first', 'last-last', 'first-last', 'first-first']


@op('rank_tensordot')
def _rank_tensordot(pool, s):
    a = pool.pick(any_tt, s['i'])
    ta = a['t']
    m = np.array([[1.5]]) if s['k'] % 2 == 0 else np.array([[0.5 + 0.5j]])
    mode = 'last' if s['j'] % 2 == 0 else 'first'
    if (mode == 'last' and ta.ranks[-1] != 1) or (mode == 'first' and ta.ranks[0] != 1):
        return None
    ow = s['flag'] and a['derived']
    r = ta.rank_tensordot(m, mode=mode, overwrite=ow)
    return [r], ({id(ta): 'respecified'} if ow else {})


@op('concatenate')
def _concatenate(pool, s):
    a = pool.pick(lambda it: small(it) and it['t'].order <= 3, s['i'])
    b = pool.pick(lambda it: small(it) and it['t'].order <= 3, s['j'])
    if a is None or b is None:
        return None
    ow = s['flag'] and a['derived'] and a is not b
    other = b['t'] if s['k'] % 2 == 0 else list(b['t'].cores)
    r = a['t'].concatenate(other, overwrite=ow)
    return [r], ({id(a['t']): 'respecified'} if ow else {})


@op('transpose')
def _transpose(pool, s):
    a = pool.pick(any_tt, s['i'])
    ta = a['t']
    ow = s['flag'] and a['derived']
    which = s['k'] % 4
    if which == 0:
        r = ta.transpose(conjugate=s['j'] % 2 == 0, overwrite=ow)
    elif which == 1:
        r = ta.transpose(cores=[s['j'] % ta.order], overwrite=ow)
    elif which == 2:
        r = ta.conj(overwrite=ow)
    else:
        r = ta.rank_transpose(overwrite=ow)
    return [r], ({id(ta): 'respecified'} if ow else {})


@op('copy')
def _copy(pool, s):
    a = pool.pick(any_tt, s['i'])
    return [a['t'].copy()], {}


@op('diag')
def _diag(pool, s):
    a = pool.pick(lambda it: all(c == 1 for c in it['t'].col_dims) and small(it), s['i'])
    if a is None:
        return None
    ta = a['t']
    sub = [i for i in range(ta.order) if (s['k'] >> i) & 1] or [s['j'] % ta.order]
    return [ta.diag(sub)], {}


@op('squeeze')
def _squeeze(pool, s):
    a = pool.pick(lambda it: bounded(it) and any(not (m == 1 and n == 1) for m, n in zip(it['t'].row_dims, it['t'].col_dims)), s['i'])
    if a is None:
        return None
    return [a['t'].squeeze()], {}


@op('qtt')
def _qtt(pool, s):
    a = pool.pick(small, s['i'])
    if a is None:
        return None
    ta = a['t']
    if s['flag']:
        rows = [[m] if m != 4 else [2, 2] for m in ta.row_dims]
        cols = [[n] if len(r) == 1 else ([n] if False else ([2, 2] if n == 4 else [1, n])) for n, r in zip(ta.col_dims, rows)]
        cols = [c if len(c) == len(r) else ([1] * (len(r) - 1) + [c[0]]) for c, r in zip(cols, rows)]
        r = ta.tt2qtt(rows, cols)
    else:
        k = max(1, s['k'] % ta.order)
        merge = [k] + [1] * (ta.order - k)
        r = ta.qtt2tt(merge)
    return [r], {}


@op('svd')
def _svd(pool, s):
    # (a relative threshold is undefined on an exactly-zero tensor: only finite, non-zero objects)
    a = pool.pick(lambda it: bounded(it) and it['t'].order >= 2 and all(c == 1 for c in it['t'].col_dims) and small(it)
                  and finite_nonzero(pool, it), s['i'])
    if a is None:
        return None
    ta = a['t']
    idx = 1 + s['j'] % (ta.order - 1)
    ow = s['flag'] and a['derived']
    th = [0, 0, 1e-12][s['k'] % 3]
    if s['k'] % 2 == 0:
        u, sv, v = ta.svd(idx, threshold=th, overwrite=ow)
        res = [u, v]
    else:
        res = [ta.pinv(idx, threshold=1e-12, overwrite=ow)]
    return res, ({id(ta): 'respecified'} if ow else {})


@op('readout')
def _readout(pool, s):
    a = pool.pick(small, s['i'])
    if a is None:
        return None
    ta = a['t']
    k = s['k'] % 5
    if k == 0:
        ta.norm(2)
    elif k == 1:
        ta.full()
    elif k == 2:
        ta.matricize()
    elif k == 3:
        ta.element([0] * (2 * ta.order))
    else:
        ta.norm(1)
    return [], {}


@op('residual')
def _residual(pool, s):
    o = pool.pick(lambda it: pool.is_op(it['t']) and small(it), s['i'])
    x = pool.pick(lambda it: pool.is_vec(it['t']), s['j'])
    b = pool.pick(lambda it: pool.is_vec(it['t']), s['k'])
    if o is None or x is None or b is None:
        return None
    ttm.residual_error(o['t'], x['t'], b['t'])
    return [], {}


@op('ortho')
def _ortho(pool, s):
    a = pool.pick(any_tt, s['i'])
    ta = a['t']
    which = s['k'] % 6
    trunc = which >= 3
    if which % 3 == 0:
        if trunc:
            ta.ortho_left(max_rank=1)
        elif ta.order >= 2 and s['flag']:
            st_ = s['j'] % (ta.order - 1)
            ta.ortho_left(start_index=st_, end_index=ta.order - 2)
        else:
            ta.ortho_left()
    elif which % 3 == 1:
        if trunc:
            # a relative threshold is undefined on an exactly-zero tensor (s/s[0]); zero tensors do occur in histories (a - a)
            nonzero = all(np.all(np.isfinite(c)) and np.linalg.norm(c) > 1e-8 for c in ta.cores)
            if nonzero and s['j'] % 2 == 0:
                ta.ortho_right(threshold=0.5)
            else:
                ta.ortho_right(max_rank=1)
        elif ta.order >= 2 and s['flag']:
            e = 1 + s['j'] % (ta.order - 1)
            ta.ortho_right(start_index=ta.order - 1, end_index=e)
        else:
            ta.ortho_right()
    else:
        if trunc:
            ta.ortho(max_rank=[1] + [1 + (s['j'] % 2)] * (ta.order - 1) + [1])
        else:
            ta.ortho()
    boundary_open = ta.ranks[0] != 1 or ta.ranks[-1] != 1
    return [], {id(ta): 'respecified' if (trunc or boundary_open) else 'preserve'}


@op('poke')
def _poke(pool, s):
    # the bluntest in-place operation a caller can apply to a result: write into one of its core arrays
    a = pool.pick(lambda it: it['derived'], s['i'])
    if a is None:
        return None
    ta = a['t']
    c = ta.cores[s['j'] % ta.order]
    if not c.flags.writeable:
        return None
    c *= 2.0
    return [], {id(ta): 'respecified'}


# ---- solvers / integrators / data-driven routines -----------------------------------------------------------

def get_spd(pool, s):
    it = pool.pick(lambda it: it['kind'] == 'spd', s['i'])
    return it if it is not None else pool.new_op(spd=True)


def get_herm(pool, s):
    it = pool.pick(lambda it: it['kind'] in ('herm', 'spd'), s['i'])
    return it if it is not None else pool.new_op(herm=True)


def get_vec(pool, s, key='j'):
    it = pool.pick(lambda it: pool.is_vec(it['t']) and max(it['t'].ranks) <= 8 and finite_nonzero(pool, it), s[key])
    return it if it is not None else pool.new_vec()


@op('sle')
def _sle(pool, s):
    A, b, g = get_spd(pool, s), get_vec(pool, s), pool.fresh_guess()
    if s['flag']:
        r = sle.als(A['t'], g['t'], b['t'], repeats=1 + s['k'] % 2, solver=['solve', 'lu'][s['k'] % 2])
    else:
        r = sle.mals(A['t'], g['t'], b['t'], repeats=1, threshold=1e-12, max_rank=[np.inf, 2][s['k'] % 2])
    return [r], {}


@op('evp')
def _evp(pool, s):
    A, g = get_herm(pool, s), pool.fresh_guess()
    nev = 1 + (s['k'] % 2)
    if nev == 2:
        mr = dense.max_ranks(pool.dims())
        g = pool.new_vec(ranks=[1] + [min(2, m) for m in mr[1:-1]] + [1])
    prev = [get_vec(pool, s)['t']] if s['flag'] else []
    kw = dict(number_ev=nev, repeats=1 + s['j'] % 2, conv_eps=0, solver=['eigh', 'eig'][s['k'] % 2], sigma=10.0)
    if prev:
        kw.update(previous=prev, shift=0.5)
    ev, et, _ = evp.als(A['t'], g['t'], **kw)
    return ([et] if nev == 1 else list(et)), {}


@op('power')
def _power(pool, s):
    A = get_spd(pool, s)
    mr = dense.max_ranks(pool.dims())
    g = pool.new_vec(ranks=mr)
    ev, et = evp.power_method(A['t'], g['t'], repeats=2, sigma=0.2)
    return [et], {}


@op('euler')
def _euler(pool, s):
    A, x0 = get_spd(pool, s), get_vec(pool, s)
    k = s['k'] % 4
    steps = [0.1, 0.05][: 1 + s['j'] % 2]
    if k == 0:
        sol = ode.explicit_euler(A['t'], x0['t'], steps, normalize=[0, 2][s['flag']], progress=False)
    elif k == 1:
        sol = ode.implicit_euler(A['t'], x0['t'], pool.fresh_guess()['t'], steps, normalize=[0, 2][s['flag']], progress=False,
                                 tt_solver=['als', 'mals'][s['j'] % 2])
    elif k == 2:
        sol = ode.trapezoidal_rule(A['t'], x0['t'], pool.fresh_guess()['t'], steps, normalize=[0, 2][s['flag']], progress=False)
    else:
        prev = get_vec(pool, s, 'k')['t'] if s['flag'] else None
        sol = ode.hod(A['t'], x0['t'], 0.1, 1 + s['j'] % 2, order=2, previous_value=prev, normalize=[0, 2][s['j'] % 2], progress=False)
    return list(sol), {}


@op('errors')
def _errors(pool, s):
    A = get_spd(pool, s)
    xs = [get_vec(pool, s, 'j')['t'], get_vec(pool, s, 'k')['t']]
    f = [ode.errors_expl_euler, ode.errors_impl_euler, ode.errors_trapezoidal][s['k'] % 3]
    f(A['t'], xs, [0.1])
    return [], {}


@op('adaptive')
def _adaptive(pool, s):
    # Markov generator and a probability vector (the routine normalises in the 1-norm)
    d, n = pool.d, pool.n
    N = n ** d
    G = pool.rng.uniform(0, 1, (N, N))
    np.fill_diagonal(G, 0)
    G = G - np.diag(G.sum(axis=0))
    A = pool.add(TT(dense.op_cores(G, pool.dims())), kind='op', tag='markov')
    x0 = pool.add(TT([np.full((1, n, 1, 1), 1.0 / n) for _ in range(d)]), kind='vec', tag='uniform')
    mr = dense.max_ranks(pool.dims())
    g = pool.add(TT([build.rand_array(pool.rng, (mr[i], n, 1, mr[i + 1]), False, 'nonneg') for i in range(d)]), kind='vec', tag='guess')
    sol, times = ode.adaptive_step_size(A['t'], x0['t'], g['t'], 0.05, step_size_first=0.01, progress=False,
                                        second_method=['two_step_Euler', 'trapezoidal_rule'][s['k'] % 2])
    return list(sol), {}


@op('splitting')
def _splitting(pool, s):
    x0 = get_vec(pool, s)
    n, d = pool.n, pool.d
    S = 0.1 * pool.rng.standard_normal((n, n))
    Lm = 0.1 * pool.rng.standard_normal((n, n, 1))
    M = pool.rng.standard_normal((1, n, n))
    f = [ode.lie_splitting, ode.strang_splitting, ode.yoshida_splitting, ode.kahan_li_splitting][s['k'] % 4]
    sol = f(S, Lm, np.eye(n), M, x0['t'], 0.1, 1 + s['j'] % 2, normalize=0)
    return list(sol), {}


@op('tdvp')
def _tdvp(pool, s):
    H, x0 = get_herm(pool, s), get_vec(pool, s)
    k = s['k'] % 4
    if k != 3:
        # TDVP's domain (see C11): a right-orthonormal, normalised state. A pooled vector of norm 1e4 with generic cores gives
        # effective operators of norm 1e8 and scipy's expm_multiply then needs minutes. The orthonormalised copy is pooled and
        # is the argument that has to stay unchanged.
        t = x0['t'].copy().ortho_right()
        nrm = np.linalg.norm(t.cores[0])
        if not np.isfinite(nrm) or nrm == 0:
            return None
        t.cores[0] = t.cores[0] / nrm
        x0 = pool.add(t, kind='vec', derived=True, tag='orthonormalised')
    if k == 0:
        sol = ode.tdvp1site(H['t'], x0['t'], 0.1, 1 + s['j'] % 2)
    elif k == 1:
        sol = ode.tdvp2site(H['t'], x0['t'], 0.1, 1 + s['j'] % 2, max_rank=[50, 2][s['flag']])
    elif k == 2:
        sol = ode.tdvp(H['t'], x0['t'], 0.1, 1 + s['j'] % 2, max_rank=[50, 2][s['flag']])
    else:
        sol = [ode.krylov(H['t'], x0['t'], 2 + s['j'] % 2, 0.1)]
    return list(sol), {}


@op('tdmd')
def _tdmd(pool, s):
    x = get_vec(pool, s, 'j')
    y = get_vec(pool, s, 'k')
    f = tdmd.tdmd_exact if s['flag'] else tdmd.tdmd_standard
    ev, modes = f(x['t'], y['t'], threshold=[0, 1e-10][s['i'] % 2])
    return [modes], {}


@op('arr')
def _arr(pool, s):
    g = pool.fresh_guess()
    d, n = pool.d, pool.n
    m = 6
    x = pool.rng.uniform(-1, 1, (d, m))
    y = pool.rng.standard_normal((1 + s['k'] % 2, m))
    basis = [[tdt.Monomial(i, e) for e in range(n)] for i in range(d)]
    sol = reg.arr(x, y, basis, g['t'], repeats=1 + s['j'] % 2, rcond=1e-12, progress=False)
    return list(sol), {}


OP_NAMES = sorted(OPS)
WEIGHTED = (['add', 'scalar', 'matmul', 'tensordot', 'tensordot', 'concatenate', 'transpose', 'copy', 'diag', 'squeeze', 'qtt', 'svd', 'svd',
             'rank_tensordot', 'readout', 'residual', 'new_vec', 'new_op', 'ctor'] * 2 + ['ortho'] * 8 + ['poke'] * 4 +
            ['sle', 'evp', 'evp', 'power', 'euler', 'euler', 'errors', 'adaptive', 'splitting', 'tdvp', 'tdvp', 'tdmd', 'arr'])


@st.composite
def history_case(draw):
    d = draw(st.sampled_from([2, 2, 3]))
    n = draw(st.sampled_from([2, 2, 3])) if d == 2 else 2
    nsteps = draw(st.integers(10, 40))
    steps = [{'op': draw(st.sampled_from(WEIGHTED)), 'i': draw(st.integers(0, 11)), 'j': draw(st.integers(0, 11)), 'k': draw(st.integers(0, 11)),
              'flag': draw(st.booleans())} for _ in range(nsteps)]
    return {'d': d, 'n': n, 'steps': steps, 'seed': draw(gen.SEED)}


INPLACE_OPS = {'ortho', 'poke'}
OVERWRITE_OPS = {'tensordot', 'rank_tensordot', 'concatenate', 'transpose', 'svd'}


def body_history(c):
    rng = np.random.default_rng(c['seed'])
    pool = Pool(c['d'], c['n'], rng)
    # base objects in the layouts where LAPACK works in place / cores are views
    pool.new_vec(layout='C', ranks=[1] * (c['d'] + 1))
    pool.new_vec(layout='F')
    pool.new_vec(layout='T', cplx=True)
    pool.new_op(spd=True)
    lab = set()
    nontrivial = False
    for k, s in enumerate(c['steps']):
        pool.step = k + 1
        f = OPS[s['op']]
        what = 'step %d (%s, i=%d j=%d k=%d flag=%s)' % (k + 1, s['op'], s['i'], s['j'], s['k'], s['flag'])
        out = None
        try:
            with contextlib.redirect_stdout(io.StringIO()):
                out = f(pool, s)
        except Violation:
            raise
        except Exception as exc:     # a library (or harness) exception inside a rule is not what C06 is about
            lab.add('rule_exception:' + s['op'])
            if s['op'] in INPLACE_OPS or (s['flag'] and s['op'] in OVERWRITE_OPS):
                # a failed in-place sweep leaves its target unspecified: re-snapshot everything that changed is not possible,
                # so stop the history here (the prefix has been checked)
                break
            pool.check({}, what + ' [raised %s]' % type(exc).__name__)
            continue
        if out is None:
            lab.add('skipped:' + s['op'])
            continue
        results, modified = out
        lab.add('op:' + s['op'])
        if modified:
            for it in pool.items:
                if id(it['t']) in modified and it['derived']:
                    nontrivial = True
                    lab.add('inplace_on_derived')
        pool.check(modified, what)
        pool.absorb(results, s['op'])
    if nontrivial:
        lab.add('nontrivial_history')
    return lab


# ---------------------------------------------------------------------------------------------------------
# enumerated cross product: producer x layout class x in-place follow-up
# ---------------------------------------------------------------------------------------------------------

LAYOUTS = ['generic_C', 'fortran', 'transposed_view', 'rank1_bonds', 'size1_modes', 'rank1_fortran', 'size1_leading']
FOLLOWUPS = ['ortho_left', 'ortho_right', 'ortho_left_partial', 'ortho_trunc', 'svd_overwrite', 'pinv_overwrite', 'conj_overwrite',
             'transpose_overwrite', 'rank_transpose_overwrite', 'scale_cores']
PRODUCERS = ['add', 'sub', 'lmul', 'rmul', 'matmul_op_vec', 'matmul_op_op', 'tensordot_last-first', 'tensordot_last-last',
             'tensordot_first-last', 'tensordot_first-first', 'tensordot_complete_self', 'rank_tensordot', 'concatenate_tt', 'concatenate_list',
             'transpose', 'conj', 'rank_transpose', 'copy', 'diag', 'squeeze', 'tt2qtt', 'qtt2tt', 'svd', 'pinv', 'evp_nev2', 'sle_als', 'tdvp1site',
             'explicit_euler', 'tdmd_standard', 'overwrite_targets', 'constructors']
CROSS_CASES = [{'producer': p, 'layout': l, 'followup': f} for p in PRODUCERS for l in LAYOUTS for f in FOLLOWUPS]


def layout_vec(rng, layout, dims, cplx=False):
    d = len(dims)
    if layout in ('rank1_bonds', 'rank1_fortran'):
        ranks = [1] * (d + 1)
    elif layout == 'size1_leading':
        ranks = [min(2, r) for r in dense.max_ranks(dims)]       # admissible ranks (the solvers need full-rank interfaces)
    else:
        ranks = [1] + [2] * (d - 1) + [1]
    lay = {'generic_C': 'C', 'fortran': 'F', 'transposed_view': 'T', 'rank1_bonds': 'C', 'size1_modes': 'C', 'rank1_fortran': 'F', 'size1_leading': 'C'}[layout]
    cores = [build.rand_array(rng, (ranks[i], dims[i], 1, ranks[i + 1]), cplx, 'normal', lay) for i in range(d)]
    return TT(cores)


def layout_op(rng, layout, dims):
    d = len(dims)
    ranks = [1] * (d + 1) if layout in ('rank1_bonds', 'rank1_fortran') else [1] + [2] * (d - 1) + [1]
    lay = {'generic_C': 'C', 'fortran': 'F', 'transposed_view': 'T', 'rank1_bonds': 'C', 'size1_modes': 'C', 'rank1_fortran': 'F', 'size1_leading': 'C'}[layout]
    return TT([build.rand_array(rng, (ranks[i], dims[i], dims[i], ranks[i + 1]), False, 'normal', lay) for i in range(d)])


def apply_followup(t, f):
    """in-place operation on a result; returns False when not applicable to this object"""
    if f == 'ortho_left':
        t.ortho_left()
    elif f == 'ortho_right':
        t.ortho_right()
    elif f == 'ortho_left_partial':
        if t.order < 3:
            return False
        t.ortho_left(start_index=1)
    elif f == 'ortho_trunc':
        t.ortho(max_rank=1)
    elif f in ('svd_overwrite', 'pinv_overwrite'):
        if t.order < 2 or any(c != 1 for c in t.col_dims) or t.ranks[0] != 1 or t.ranks[-1] != 1:
            return False
        if f == 'svd_overwrite':
            t.svd(t.order - 1, overwrite=True)
        else:
            t.pinv(1, threshold=1e-12, overwrite=True)
    elif f == 'conj_overwrite':
        t.conj(overwrite=True)
    elif f == 'transpose_overwrite':
        t.transpose(overwrite=True)
    elif f == 'rank_transpose_overwrite':
        t.rank_transpose(overwrite=True)
    elif f == 'scale_cores':
        # the bluntest in-place modification a caller can make: write into the result's arrays
        for c in t.cores:
            if c.flags.writeable:
                c *= 2.0
            else:
                return False
    return True


def prepare(p, layout, rng, dims):
    """-> (operands dict, thunk producing the list of results)"""
    a = layout_vec(rng, layout, dims)
    b = layout_vec(rng, layout, dims)
    A = layout_op(rng, layout, dims)
    B = layout_op(rng, layout, dims)
    ops = {'a': a, 'b': b, 'A': A, 'B': B}
    N = int(np.prod(dims))
    if p == 'add':
        return ops, lambda: [a + b]
    if p == 'sub':
        return ops, lambda: [a - b]
    if p == 'lmul':
        return ops, lambda: [2.5 * a]
    if p == 'rmul':
        return ops, lambda: [a * 2.5, a * 0.5]
    if p == 'matmul_op_vec':
        return ops, lambda: [A @ a]
    if p == 'matmul_op_op':
        return ops, lambda: [A @ B]
    if p.startswith('tensordot_') and p != 'tensordot_complete_self':
        mode = p.split('_', 1)[1]
        if mode == 'last-first':
            bb = layout_vec(rng, layout, [dims[-1]] + dims[:2])
        elif mode == 'first-last':
            bb = layout_vec(rng, layout, dims[:2] + [dims[0]])
        elif mode == 'last-last':
            bb = layout_vec(rng, layout, dims[:2] + [dims[-1]])
        else:
            bb = layout_vec(rng, layout, [dims[0]] + dims[1:])
        ops['bb'] = bb
        return ops, lambda: [a.tensordot(bb, 1, mode=mode)]
    if p == 'tensordot_complete_self':
        bb = layout_vec(rng, layout, dims + [2, 2])
        ops['bb'] = bb
        return ops, lambda: [a.tensordot(bb, len(dims), mode='last-first'), bb.tensordot(a, len(dims), mode='first-last')]
    if p == 'rank_tensordot':
        return ops, lambda: [a.rank_tensordot(np.array([[1.5]]), mode='last'), a.rank_tensordot(np.array([[1.5]]), mode='first')]
    if p == 'concatenate_tt':
        return ops, lambda: [a.concatenate(b)]
    if p == 'concatenate_list':
        return ops, lambda: [a.concatenate(list(b.cores))]
    if p == 'transpose':
        return ops, lambda: [A.transpose(), a.transpose(cores=[0]), A.transpose(conjugate=True)]
    if p == 'conj':
        return ops, lambda: [a.conj()]
    if p == 'rank_transpose':
        return ops, lambda: [a.rank_transpose()]
    if p == 'copy':
        return ops, lambda: [a.copy()]
    if p == 'diag':
        return ops, lambda: [a.diag([0]), a.diag(list(range(len(dims))))]
    if p == 'squeeze':
        return ops, lambda: [a.squeeze(), A.squeeze()]
    if p == 'tt2qtt':
        return ops, lambda: [a.tt2qtt([[m] for m in dims], [[1] for _ in dims])]
    if p == 'qtt2tt':
        return ops, lambda: [a.qtt2tt([2, 1]), a.qtt2tt([1, 1, 1])]
    if p == 'svd':
        def f():
            out = []
            for kw in ({}, {'ortho_l': False, 'ortho_r': False}, {'ortho_l': False}, {'ortho_r': False}, {'threshold': 1e-12, 'max_rank': 50}):
                for idx in (1, 2):
                    u, s_, v = a.svd(idx, **kw)
                    out += [u, v]
            return out
        return ops, f
    if p == 'pinv':
        return ops, lambda: [a.pinv(1, threshold=1e-12), a.pinv(2, threshold=1e-12, ortho_l=False, ortho_r=False),
                             a.pinv(2, threshold=1e-12, ortho_r=False), a.pinv(1, ortho_l=False)]
    if p == 'constructors':
        # every call of a constructor is documented to build a tensor train: two calls with equal arguments are two distinct
        # live results (neither the same object nor sharing memory), whatever happened to the first one in between
        import scikit_tt.tensor_train as ttm
        d = len(dims)

        def f():
            out = []
            for _ in range(2):
                out += [ttm.eye(list(dims)), ttm.zeros(list(dims), [1] * d), ttm.ones(list(dims), [1] * d), ttm.unit(list(dims), [0] * d),
                        ttm.uniform(list(dims)), ttm.zeros(list(dims), list(dims), 2), ttm.ones(list(dims), list(dims), 2),
                        ttm.uniform(list(dims), ranks=2)]
            return out
        return ops, f
    if p == 'overwrite_targets':
        # overwrite=True keeps self alive as the working object: self and everything returned are distinct live objects
        def f():
            out = []
            a2 = a.copy()
            u, s_, v = a2.svd(1, overwrite=True)
            out += [u, v, a2]
            a3 = a.copy()
            out += [a3.pinv(2, threshold=1e-12, overwrite=True), a3]
            a4 = a.copy()
            out += [a4.tensordot(b, 1, mode='last-first', overwrite=True) if dims[-1] == dims[0] else a4.concatenate(b, overwrite=True)]
            a5 = a.copy()
            out += [a5.concatenate(list(b.cores), overwrite=True)]
            return out
        return ops, f
    if p in ('evp_nev2', 'tdvp1site'):
        H = rng.standard_normal((N, N))
        H = TT(dense.op_cores((H + H.T) / 2, dims))
        ops['H'] = H
        if p == 'tdvp1site':
            return ops, lambda: list(ode.tdvp1site(H, a, 0.1, 2)[1:]) + list(ode.tdvp2site(H, a, 0.1, 1)[1:]) + list(ode.tdvp(H, a, 0.1, 1)[1:])
        if layout == 'size1_leading':
            return ops, lambda: []                     # two eigenvectors need interior ranks >= 2: not applicable to these dims
        g = TT([rng.standard_normal((r0, m, 1, r1)) for r0, m, r1 in zip([1, 2, 2], dims, [2, 2, 1])])
        ops['g'] = g

        def f():
            ev, ets, _ = evp.als(H, g, number_ev=2, repeats=1, conv_eps=0, solver='eigh')
            ev1, et1, _ = evp.als(H, g, previous=[a], shift=0.5, repeats=1, conv_eps=0, solver='eigh')
            return list(ets) + [et1]
        return ops, f
    if p == 'sle_als':
        S = rng.standard_normal((N, N))
        S = TT(dense.op_cores(np.eye(N) + 0.1 * (S + S.T), dims))
        ops['S'] = S
        return ops, lambda: [sle.als(S, b, a, repeats=1), sle.mals(S, b, a, repeats=1)]
    if p == 'explicit_euler':
        # a caller-supplied higher-order-differencing operator, built as the untruncated sum 2hA + (2/3!) h^3 A^3 (ranks not minimal)
        ops['op_hod'] = 0.2 * A + (2.0 / 6.0) * 1e-3 * (A @ A @ A)

        def f():
            out = list(ode.explicit_euler(A, a, [0.1, 0.1], normalize=0, progress=False)[1:])
            out += list(ode.hod(A, a, 0.1, 2, order=4, op_hod=ops['op_hod'], previous_value=b, normalize=0, progress=False)[1:])
            out += list(ode.implicit_euler(A, a, b, [0.1], normalize=0, progress=False)[1:])
            out += list(ode.trapezoidal_rule(A, a, b, [0.1], normalize=2, progress=False)[1:])
            out += list(ode.hod(A, a, 0.1, 1, order=2, previous_value=b, normalize=0, progress=False)[1:])
            return out
        return ops, f
    if p == 'tdmd_standard':
        def f():
            out = []
            for fl in ((True, True), (False, False)):
                out.append(tdmd.tdmd_standard(a, b, ortho_l=fl[0], ortho_r=fl[1])[1])
                out.append(tdmd.tdmd_exact(a, b, ortho_l=fl[0], ortho_r=fl[1])[1])
            return out
        return ops, f
    raise AssertionError(p)


def body_cross(c):
    rng = np.random.default_rng(12345)
    p, layout, fu = c['producer'], c['layout'], c['followup']
    dims = {'size1_modes': [2, 1, 3], 'size1_leading': [1, 2, 1]}.get(layout, [2, 3, 2])
    operands, thunk = prepare(p, layout, rng, dims)
    snaps = {k: build.snapshot(v) for k, v in operands.items()}
    with contextlib.redirect_stdout(io.StringIO()):
        res = thunk()
    # (1) the call itself must not change its operands
    for k, v in operands.items():
        msg = build.unchanged(v, snaps[k])
        if msg:
            raise Violation('operand_changed', '%s: the call itself changed operand %r: %s' % (p, k, msg))
    results = [r for r in res if isinstance(r, TT)]
    if p == 'constructors':
        for i in range(len(results)):
            for j in range(i + 1, len(results)):
                if results[i] is results[j]:
                    raise Violation('sibling_result_changed', 'two constructor calls returned the same object (results %d and %d)' % (i, j))
    for r in results:
        cm = dense.consistent(r)
        if cm:
            raise Violation('returned_inconsistent', '%s returned an inconsistent tensor train: %s' % (p, cm))
        for k, v in operands.items():
            if r is v:
                raise Violation('operand_changed', '%s returned its operand %r by identity' % (p, k))
    lab = {'producer:' + p, 'layout:' + layout, 'followup:' + fu}
    applied = 0
    # (2) in-place follow-ups on each result must not change operands or sibling results
    for ri, r in enumerate(results):
        others = [(j, q, build.snapshot(q)) for j, q in enumerate(results) if q is not r]
        if p == 'constructors' and not np.any([np.any(c_) for c_ in r.cores]):
            continue       # truncating sweeps on an exactly zero tensor are outside the domain (relative cut of a zero spectrum)
        with contextlib.redirect_stdout(io.StringIO()):
            try:
                ok = apply_followup(r, fu)
            except Exception:
                lab.add('followup_exception')
                ok = True          # whatever happened to r, the operands and the other results must be untouched
        if not ok:
            continue
        applied += 1
        for k, v in operands.items():
            msg = build.unchanged(v, snaps[k])
            if msg:
                raise Violation('operand_changed', '%s: after %s on result %d, operand %r %s' % (p, fu, ri, k, msg))
        for j, q, sn in others:
            msg = build.unchanged(q, sn)
            if msg:
                raise Violation('sibling_result_changed', '%s: after %s on result %d, the distinct result %d %s' % (p, fu, ri, j, msg))
    if applied:
        lab.add('followup_applied')
    return lab


# ---------------------------------------------------------------------------------------------------------
# API sweep: TT-returning functions that no other property check receives
# ---------------------------------------------------------------------------------------------------------

@st.composite
def api_case(draw):
    return {'seed': draw(gen.SEED), 'which': draw(st.sampled_from(['canonical', 'tjm', 'simon', 'amuset_extras', 'hod_previous', 'mandy', 'order1_solvers',
                                                                'order1_solvers']))}


def body_api(c):
    rng = np.random.default_rng(c['seed'])
    w = c['which']
    lab = {'api:' + w}
    with contextlib.redirect_stdout(io.StringIO()):
        if w == 'canonical':
            d = int(rng.integers(1, 6))
            dims = [int(rng.integers(1, 4))] * d       # homogeneous mode sizes (the construction mirrors left and right halves)
            t = ttm.canonical(dims, int(rng.integers(1, 6)))
            require_consistent(t, 'returned_inconsistent')
            require(t.row_dims == dims, 'returned_inconsistent', 'canonical: rows %s' % t.row_dims)
        elif w == 'simon':
            require_consistent(mdl.simon(), 'returned_inconsistent')
        elif w == 'order1_solvers':
            # one-core trains (a plain matrix equation in TT clothing): boundary stacks are trivial there, which is where a solver
            # may end up working directly on the buffers of its arguments
            n = int(rng.integers(2, 6))
            S_ = rng.standard_normal((n, n))
            A_ = TT([(np.eye(n) * n + 0.3 * (S_ + S_.T)).reshape(1, n, n, 1)])
            b_ = TT([rng.standard_normal((1, n, 1, 1))])
            g_ = TT([rng.standard_normal((1, n, 1, 1))])
            snaps = [(t, build.snapshot(t), nm) for t, nm in ((A_, 'operator'), (b_, 'right-hand side'), (g_, 'initial guess'))]
            outs = []
            for solver in ('solve', 'lu'):
                outs.append(sle.als(A_, g_, b_, repeats=1 + int(rng.integers(0, 2)), solver=solver))
                for t, s_, nm in snaps:
                    msg = build.unchanged(t, s_)
                    require(msg is None, 'operand_changed', 'sle.als(solver=%s) on one-core trains: %s %s' % (solver, nm, msg))
            outs += list(ode.implicit_euler(-1.0 * A_, b_, g_, [0.1, 0.1], progress=False, micro_solver='lu')[1:])
            outs += list(ode.trapezoidal_rule(-1.0 * A_, b_, g_, [0.1], progress=False, micro_solver='lu')[1:])
            ev_, et_, _ = evp.als(A_, g_, repeats=1, conv_eps=0, solver='eigh')
            outs.append(et_)
            for t, s_, nm in snaps:
                msg = build.unchanged(t, s_)
                require(msg is None, 'operand_changed', 'solvers / integrators on one-core trains: %s %s' % (nm, msg))
            for o in outs:
                require_consistent(o, 'returned_inconsistent')
        elif w == 'tjm':
            L = int(rng.integers(2, 4))
            H = rng.standard_normal((2 ** L, 2 ** L))
            H = TT(dense.op_cores((H + H.T) / 2, [2] * L))
            x0 = TT(dense.qr_right([rng.standard_normal((1 if i == 0 else 2, 2, 1, 1 if i == L - 1 else 2)) for i in range(L)]))
            x0 = (1 / x0.norm()) * x0
            snaps = [(t, build.snapshot(t)) for t in (H, x0)]
            jumps = [np.array([[0.0, 1.0], [0.0, 0.0]])]
            np.random.seed(c['seed'] % (2 ** 32))
            traj = ode.tjm(H, jumps, [0.1], x0, 0.05, int(rng.integers(1, 4)))
            for t in traj:
                require_consistent(t, 'returned_inconsistent')
            for t, s in snaps:
                msg = build.unchanged(t, s)
                require(msg is None, 'operand_changed', 'tjm: %s' % msg)
            op_ = ode.tjm_dissipative_operator(L, jumps, [0.1], 0.05)
            require_consistent(op_, 'returned_inconsistent')
            # the jump step called directly, with a rank cap below the state's ranks: the argument must keep its value
            mr = dense.max_ranks([2] * L)
            st_ = TT(dense.qr_right([rng.standard_normal((mr[i], 2, 1, mr[i + 1])) for i in range(L)]))
            st_ = (1 / st_.norm()) * st_
            sn = build.snapshot(st_)
            out = ode.tjm_jump_process_tdvp(H, st_, jumps, [0.1], 0.05, threshold=[1e-12, 1e-2][c['seed'] % 2], max_rank=[1, 50][(c['seed'] // 2) % 2])
            require_consistent(out, 'returned_inconsistent')
            msg = build.unchanged(st_, sn)
            require(msg is None, 'operand_changed', 'tjm_jump_process_tdvp: state argument %s' % msg)
        elif w == 'amuset_extras':
            m = 8
            x = rng.uniform(-1, 1, (2, m))
            basis = [[tdt.ConstantFunction(0), tdt.Identity(i), tdt.Monomial(i, 2)] for i in range(2)]
            out = tedmd.amuset_hosvd(x, np.arange(0, m - 1), np.arange(1, m), basis, threshold=1e-10, ef_tf=True, st_tf=True)
            ev, et, ef, sv, lst = out
            require_consistent(et, 'returned_inconsistent')
            require_consistent(lst, 'returned_inconsistent')
            require(lst is not et, 'sibling_result_changed', 'singular tensors and eigentensors are the same object')
            sn = build.snapshot(lst)
            et.ortho_left()
            msg = build.unchanged(lst, sn)
            require(msg is None, 'sibling_result_changed', 'amuset_hosvd: orthonormalising the eigentensor changed the singular tensors: %s' % msg)
        elif w == 'hod_previous':
            dims = [2, 2]
            A = rng.standard_normal((4, 4))
            A = TT(dense.op_cores(0.3 * A, dims))
            x0 = TT([rng.standard_normal((1, 2, 1, 2)), rng.standard_normal((2, 2, 1, 1))])
            pv = TT([rng.standard_normal((1, 2, 1, 2)), rng.standard_normal((2, 2, 1, 1))])
            snaps = [(t, build.snapshot(t)) for t in (A, x0, pv)]
            sol = ode.hod(A, x0, 0.1, 2, order=int(rng.choice([2, 4])), previous_value=pv, normalize=int(rng.choice([0, 1, 2])), progress=False)
            for t in sol:
                require_consistent(t, 'returned_inconsistent')
            for t, s in snaps:
                msg = build.unchanged(t, s)
                require(msg is None, 'operand_changed', 'hod: %s' % msg)
        else:
            d, m = 2, 7
            x = rng.uniform(-1, 1, (d, m))
            y = rng.standard_normal((d, m))
            phi = [lambda t: 1.0, lambda t: t, lambda t: t ** 2]
            for t in (reg.mandy_cm(x, y, phi, threshold=1e-10), reg.mandy_fm(x, y, phi[1:], threshold=1e-10)):
                require_consistent(t, 'returned_inconsistent')
    return lab


EXTRA_COVERAGE = {'exhaustive_subchecks': ['cross_product'], 'cross_product_cases': len(CROSS_CASES),
                  'cross_product_space': {'producers': PRODUCERS, 'layouts': LAYOUTS, 'followups': FOLLOWUPS}}


def nt_hist(labels):
    return 'nontrivial_history' in labels


SUBCHECKS = [
    Sub('histories', history_case(), body_history, nt_hist, quick=60, thorough=5000, shards_quick=16, budget_quick=200,
        classes=['nontrivial_history', 'inplace_on_derived'] + ['op:' + k for k in sorted(set(WEIGHTED))]),
    Sub('cross_product', None, body_cross, lambda l: 'followup_applied' in l, quick=0, thorough=0, shards_quick=16, shards_thorough=16,
        cases=CROSS_CASES, classes=['followup_applied']),
    Sub('api_sweep', api_case(), body_api, lambda l: True, quick=30, thorough=200, shards_quick=4, classes=['api:canonical', 'api:tjm', 'api:hod_previous', 'api:order1_solvers']),
]
