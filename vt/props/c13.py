"""C13 -- bundled models are generators, unitaries or Hermitian for all parameters."""
import itertools
import numpy as np
from hypothesis import strategies as st

import scikit_tt.models as mdl
from scikit_tt.tensor_train import TT
from vt import dense, gen, build
from vt.common import Sub, Violation, require
from vt.build import close, require_consistent
from vt.props.c12 import reference_generator

# numeric parameters are handed over as python ints, python floats or numpy scalars (integer-valued parameters are common:
# alpha=1, J=1, ...)
NUM = lambda lo, hi: st.one_of(st.integers(int(np.ceil(lo)), int(np.floor(hi))), st.floats(lo, hi), st.floats(lo, hi))

PROPERTY_ID = 'C13'

RULE = ('Model sizes are enumerated over everything that fits (co_oxidation order 2..6, signaling_cascade d 2..4, toll_station '
        '2..5 lanes x 1..3 cars, two_step m 1..3, qft/iqft n 1..7, qfa, qfan 1..5, and in TT form only: co_oxidation up to order 14, toll_station up to 9 lanes, signaling_cascade up to d 7, two_step m 4..5, qfan up to 9 adders, exciton_chain / ising up to 14 sites; shor a in units mod 15, exciton_chain 2..7 '
        'sites, ising 2..8 sites, fpu d 2..6, kuramoto d 2..6, fractals dimension 1..6 x level 1..8 as far as 3^(level*dim) <= 6e5 / 6e6 entries) and combined with '
        'Hypothesis-drawn rate constants, couplings, frequencies, evaluation points. Oracles are the defining formulas: column '
        'sums / sign pattern (dense, or in TT form: norm of 1^T A by transfer matrices plus sampled off-diagonal entries through '
        'core slices), G^H G = I (dense, or ||G^H G - I||_F by harness-side TT arithmetic), bit-reversed DFT for the product of '
        'the QFT groups, Kronecker/energy formulas for exciton chain and Ising, ODE right-hand sides for FPU/Kuramoto, '
        'digit-wise products for the fractals. Non-trivial: a size other than the one used in tests/test_models.py or a '
        'non-default option (cyclic=False).')
RULE += (' ' + 'Added classes: Kuramoto frequencies of mixed magnitude (1e9 ... 1e13 next to O(1), every equation judged on its own scale), fractals requested again after the caller rescaled earlier results in place.')

ASSUMPTIONS = [
    'oracle: defining formulas from the model docstrings/papers evaluated with NumPy; harness-side TT arithmetic in vt/dense.py',
    'sizes are bounded by what can be matricised (<= 4096 states dense), larger ones are checked through TT-form identities',
    'TT-form norms are inner-product based: resolution ~1e-6 relative, far below the O(1) effect of a wrong block',
]

TEST_SIZES = {'co_oxidation': {(20, True)}, 'signaling_cascade': {(20,)}, 'toll_station': {(20, 10)}, 'two_step': {(3,)},
              'qft': {(4,)}, 'iqft': {(4,)}, 'qfan': {(2,)}, 'exciton_chain': {(5,)}, 'fpu': {(10,)}, 'kuramoto': {(10,)}}


def is_generator(M, clause, scale=None):
    scale = scale or max(float(np.max(np.abs(M))), 1e-300)
    close(M.sum(axis=0), np.zeros(M.shape[1]), 1e-11, scale * M.shape[0], clause + '_column_sums', 'column sums')
    off = M - np.diag(np.diag(M))
    require(np.all(off >= -1e-12 * scale), clause + '_offdiag', 'negative off-diagonal entry %.3e' % off.min())
    require(np.all(np.diag(M) <= 1e-12 * scale), clause + '_diag', 'positive diagonal entry')


def is_generator_tt(cores, rng, clause, samples=300):
    nrm = dense.tt_norm(cores)
    cs = dense.tt_norm(dense.tt_colsum(cores))
    require(cs <= 1e-6 * max(nrm, 1e-300), clause + '_column_sums', '||1^T A|| = %.3e for ||A|| = %.3e (TT form)' % (cs, nrm))
    dims = [c.shape[1] for c in cores]
    scale = max(float(np.max(np.abs(c))) for c in cores) ** 1
    for _ in range(samples):
        r = [int(rng.integers(n)) for n in dims]
        c = list(r)
        # neighbours in the state space: change one or two adjacent coordinates by +-1 (where generators have entries)
        k = int(rng.integers(len(dims)))
        c[k] = int(np.clip(c[k] + rng.choice([-1, 1]), 0, dims[k] - 1))
        if rng.random() < 0.5 and k + 1 < len(dims):
            c[k + 1] = int(np.clip(c[k + 1] + rng.choice([-1, 1]), 0, dims[k + 1] - 1))
        if r == c:
            continue
        e = dense.tt_entry(cores, r, c)
        require(abs(e.imag) < 1e-12 and e.real >= -1e-9 * max(nrm, 1.0), clause + '_offdiag', 'entry %s <- %s is %s' % (r, c, e))


def unitary_dense(M, clause):
    close(M.conj().T @ M, np.eye(M.shape[0]), 1e-12, 1.0, clause, 'G^H G')


def unitary_tt(cores, clause):
    dims = [c.shape[1] for c in cores]
    b = dense.tt_matmul(dense.tt_adjoint(cores), cores)
    diff = dense.tt_add(b, dense.tt_scale(dense.tt_eye(dims), -1.0))
    n = dense.tt_norm(diff)
    require(n <= 1e-5 * np.sqrt(float(np.prod(dims))), clause, '||G^H G - I||_F = %.3e (TT form)' % n)


# ---------------------------------------------------------------------------------------------------------
# Markov generators
# ---------------------------------------------------------------------------------------------------------

@st.composite
def markov_case(draw):
    model = draw(st.sampled_from(['co_oxidation', 'co_oxidation', 'signaling_cascade', 'toll_station', 'toll_station', 'two_step', 'two_step']))
    c = {'model': model, 'seed': draw(gen.SEED)}
    if model == 'co_oxidation':
        c['order'] = draw(st.integers(2, 6))
        c['k_exp'] = draw(st.floats(-2, 6))
        c['cyclic'] = draw(st.booleans())
    elif model == 'signaling_cascade':
        c['d'] = draw(st.sampled_from([2, 3, 3, 4]))
    elif model == 'toll_station':
        c['lanes'] = draw(st.integers(2, 5))
        c['cars'] = draw(st.integers(1, 3))
    else:
        c['k'] = [draw(st.one_of(st.integers(1, 10), st.floats(0.01, 10.0))) for _ in range(3)]
        c['m'] = draw(st.sampled_from([1, 2, 2, 3]))
    return c


def body_markov(case):
    rng = np.random.default_rng(case['seed'])
    model = case['model']
    lab = {model}
    if model == 'co_oxidation':
        k = float(10.0 ** case['k_exp'])
        op = mdl.co_oxidation(case['order'], k, cyclic=case['cyclic'])
        require_consistent(op, 'consistent')
        require(op.row_dims == [3] * case['order'] and op.col_dims == [3] * case['order'], 'dims', 'dims of co_oxidation')
        M = dense.matrix(op.cores)
        is_generator(M, 'co_oxidation')
        # the documented reaction network (rate constants from the cited papers)
        single = [[0, 2, k], [2, 0, 9.2e6]]
        two = [[0, 1, 0, 1, 9.7e7], [1, 0, 1, 0, 2.8e1], [2, 0, 1, 0, 1.7e5], [1, 0, 2, 0, 1.7e5], [1, 0, 0, 1, 5.0e-1],
               [0, 1, 1, 0, 5.0e-1], [0, 2, 2, 0, 6.6e-2], [2, 0, 0, 2, 6.6e-2]]
        nb = case['order'] if case['cyclic'] else case['order'] - 1
        G = reference_generator([3] * case['order'], [single] * case['order'], [two] * nb)
        close(M, G, 1e-10, float(np.max(np.abs(G))), 'co_oxidation_value', 'generator vs reaction network')
        if not case['cyclic']:
            lab.add('non_default_option')
        lab.add('other_size')
    elif model == 'signaling_cascade':
        d = case['d']
        op = mdl.signaling_cascade(d)
        require_consistent(op, 'consistent')
        require(op.row_dims == [64] * d and op.col_dims == [64] * d, 'dims', 'dims of signaling_cascade')
        if d == 2:
            M = dense.matrix(op.cores)
            is_generator(M, 'signaling_cascade')
        else:
            is_generator_tt(op.cores, rng, 'signaling_cascade')
            lab.add('tt_form')
        lab.add('other_size')
    elif model == 'toll_station':
        op = mdl.toll_station(case['lanes'], case['cars'])
        require_consistent(op, 'consistent')
        n = case['cars'] + 1
        require(op.row_dims == [n] * case['lanes'] and op.col_dims == [n] * case['lanes'], 'dims', 'dims of toll_station')
        is_generator(dense.matrix(op.cores), 'toll_station')
        lab.add('other_size')
    else:
        k1, k2, k3 = case['k']
        m = case['m']
        op = mdl.two_step_destruction(k1, k2, k3, m)
        require_consistent(op, 'consistent')
        n = [2 ** m, 2 ** (m + 1), 2 ** m, 2 ** m]
        require(op.row_dims == n and op.col_dims == n, 'dims', 'dims of two_step_destruction')
        if m <= 2:
            is_generator(dense.matrix(op.cores), 'two_step')
        else:
            is_generator_tt(op.cores, rng, 'two_step')
            lab.add('tt_form')
        if m != 3:
            lab.add('other_size')
        lab.add('random_rates')
    return lab


# ---------------------------------------------------------------------------------------------------------
# quantum circuits
# ---------------------------------------------------------------------------------------------------------

@st.composite
def quantum_case(draw):
    model = draw(st.sampled_from(['qft', 'iqft', 'qfa', 'qfan', 'shor']))
    c = {'model': model}
    if model in ('qft', 'iqft'):
        c['n'] = draw(st.integers(1, 7))
    elif model == 'qfan':
        c['k'] = draw(st.integers(1, 5))
    elif model == 'shor':
        c['a'] = draw(st.sampled_from([1, 2, 4, 7, 8, 11, 13, 14]))
    return c


def bit_reverse(n):
    N = 2 ** n
    return np.array([int(np.binary_repr(i, width=n)[::-1], 2) if n > 0 else 0 for i in range(N)])


def body_quantum(case):
    model = case['model']
    lab = {model}
    if model in ('qft', 'iqft'):
        n = case['n']
        G = mdl.qft(n) if model == 'qft' else mdl.iqft(n)
        require(isinstance(G, list) and len(G) == n, 'qft_groups', 'expected %d gate groups' % n)
        N = 2 ** n
        prod = np.eye(N, dtype=complex)
        for g in G:
            require_consistent(g, 'consistent')
            require(g.row_dims == [2] * n and g.col_dims == [2] * n, 'dims', 'dims of a gate group')
            M = dense.matrix(g.cores)
            unitary_dense(M, model + '_group_unitary')
            prod = M @ prod                         # G[0] is applied first
        w = np.exp(2j * np.pi / N)
        x = np.arange(N)
        F = w ** np.outer(x, x) / np.sqrt(N)
        want = F[bit_reverse(n), :]                 # bit-reversed discrete Fourier transform
        if model == 'iqft':
            want = np.conj(want)
        close(prod, want, 1e-12, 1.0, model + '_product', 'product of the gate groups vs bit-reversed DFT')
        if n != 4:
            lab.add('other_size')
    elif model == 'qfa':
        g = mdl.qfa()
        require_consistent(g, 'consistent')
        M = dense.matrix(g.cores)
        unitary_dense(M, 'qfa_unitary')
        g1 = mdl.qfan(1)
        close(dense.matrix(g1.cores), M, 1e-14, 1.0, 'qfan1_is_qfa', 'qfan(1) vs qfa()')
        lab.add('other_size')
    elif model == 'qfan':
        k = case['k']
        g = mdl.qfan(k)
        require_consistent(g, 'consistent')
        require(g.order == 3 * k + 1 and g.row_dims == [2] * (3 * k + 1) and g.col_dims == [2] * (3 * k + 1), 'dims', 'dims of qfan')
        if k <= 3:
            unitary_dense(dense.matrix(g.cores), 'qfan_unitary')
        else:
            unitary_tt(g.cores, 'qfan_unitary')
            lab.add('tt_form')
        if k != 2:
            lab.add('other_size')
    else:
        g = mdl.shor(case['a'])
        require_consistent(g, 'consistent')
        require(g.order == 12 and g.row_dims == [2] * 12 and g.col_dims == [2] * 12, 'dims', 'dims of shor')
        unitary_tt(g.cores, 'shor_unitary')
        lab.add('tt_form')
        if case['a'] not in (2, 4, 7, 8):
            lab.add('other_size')
    return lab


# ---------------------------------------------------------------------------------------------------------
# Hamiltonians / energy functions / coefficient tensors
# ---------------------------------------------------------------------------------------------------------

@st.composite
def physics_case(draw):
    model = draw(st.sampled_from(['exciton_chain', 'ising', 'fpu', 'kuramoto']))
    c = {'model': model, 'seed': draw(gen.SEED)}
    if model == 'exciton_chain':
        c['n'] = draw(st.integers(2, 7))
        c['alpha'] = draw(NUM(-2, 2))
        c['beta'] = draw(NUM(-2, 2))
    elif model == 'ising':
        c['d'] = draw(st.integers(2, 8))
        c['J'] = draw(NUM(-2, 2))
        c['h'] = draw(NUM(-2, 2))
    elif model == 'fpu':
        c['d'] = draw(st.integers(2, 6))
    else:
        c['d'] = draw(st.integers(2, 6))
    return c


def body_physics(case):
    rng = np.random.default_rng(case['seed'])
    model = case['model']
    lab = {model}
    if model == 'exciton_chain':
        n, a, b = case['n'], case['alpha'], case['beta']
        op = mdl.exciton_chain(n, a, b)
        require_consistent(op, 'consistent')
        require(op.row_dims == [2] * n and op.col_dims == [2] * n, 'dims', 'dims of exciton_chain')
        up = np.array([[0., 0.], [1., 0.]])       # raising
        dn = up.T
        num = up @ dn
        H = np.zeros((2 ** n, 2 ** n))

        def site(op_, i):
            return dense.embed(op_, i, [2] * n)

        for i in range(n):
            H += a * site(num, i)
            j = (i + 1) % n                        # periodic chain: bond between the last and the first site included
            H += b * (site(up, i) @ site(dn, j) + site(dn, i) @ site(up, j))
        M = dense.matrix(op.cores)
        close(M, H, 1e-12, max(abs(a), abs(b), 1e-3) * n, 'exciton_value', 'exciton Hamiltonian')
        close(M, M.conj().T, 1e-12, max(abs(a), abs(b), 1e-3) * n, 'exciton_hermitian', 'Hermitian')
        if n != 5:
            lab.add('other_size')
        if isinstance(a, int) or isinstance(b, int):
            lab.add('int_parameter')
    elif model == 'ising':
        d, J, h = case['d'], case['J'], case['h']
        t = mdl.ising(d, J, h)
        require_consistent(t, 'consistent')
        require(t.row_dims == [2] * d and t.col_dims == [1] * d, 'dims', 'dims of ising')
        x = dense.contract(t.cores).reshape([2] * d)
        want = np.zeros([2] * d)
        for idx in itertools.product(range(2), repeat=d):
            s = [1 - 2 * i for i in idx]          # index 0 -> +1, index 1 -> -1
            want[idx] = -J * sum(s[i] * s[i + 1] for i in range(d - 1)) - h * sum(s)
        close(x, want, 1e-12, (abs(J) + abs(h) + 1e-3) * d, 'ising_value', 'Ising energies')
        lab.add('other_size')
    elif model == 'fpu':
        d = case['d']
        t = mdl.fpu_coefficients(d)
        require_consistent(t, 'consistent')
        require(t.order == d + 1 and t.row_dims == [4] * d + [d] and t.col_dims == [1] * (d + 1), 'dims', 'dims of fpu_coefficients')
        xi = dense.contract(t.cores).reshape([4] * d + [d])
        x = rng.uniform(-1, 1, d)
        val = xi
        for i in range(d):
            val = np.tensordot(np.array([1.0, x[i], x[i] ** 2, x[i] ** 3]), val, axes=([0], [0]))
        xe = np.concatenate([[0.0], x, [0.0]])     # fixed ends
        beta = 0.7
        rhs = np.array([(xe[i + 1] - 2 * xe[i] + xe[i - 1]) + beta * ((xe[i + 1] - xe[i]) ** 3 - (xe[i] - xe[i - 1]) ** 3)
                        for i in range(1, d + 1)])
        close(val, rhs, 1e-12, 10.0, 'fpu_rhs', 'FPU right-hand side at a random state')
        if d != 10:
            lab.add('other_size')
    else:
        d = case['d']
        w = rng.uniform(-5, 5, d)
        if case['seed'] % 3 == 0:
            w = np.rint(w).astype(np.int64)            # integer-typed natural frequencies
            lab.add('int_parameter')
        elif case['seed'] % 3 == 1:
            # natural frequencies of very different magnitude within one system (a fast rotor next to slow ones, other units)
            w = w * 10.0 ** rng.choice([0, 0, 9, 12, 13], size=d)
            lab.add('frequencies_of_mixed_magnitude')
        t = mdl.kuramoto_coefficients(d, w.copy())
        require_consistent(t, 'consistent')
        require(t.order == 3 and t.row_dims == [d + 1, d + 1, d] and t.col_dims == [1, 1, 1], 'dims', 'dims of kuramoto_coefficients')
        xi = dense.contract(t.cores).reshape([d + 1, d + 1, d])
        th = rng.uniform(-np.pi, np.pi, d)
        p1 = np.concatenate([[1.0], np.sin(th)])
        p2 = np.concatenate([[1.0], np.cos(th)])
        val = np.einsum('a,b,abk->k', p1, p2, xi)
        rhs = np.array([w[i] + (2.0 / d) * np.sum(np.sin(th - th[i])) + 0.2 * np.sin(th[i]) for i in range(d)])
        for i in range(d):
            # every equation relative to its own terms (the equations do not mix: a large frequency elsewhere is no excuse)
            close(val[i:i + 1], rhs[i:i + 1], 1e-12, max(10.0, abs(float(w[i]))), 'kuramoto_rhs', 'Kuramoto right-hand side of oscillator %d at a random state' % i)
        lab.add('other_size')
        lab.add('random_frequencies')
    return lab


# ---------------------------------------------------------------------------------------------------------
# fractals
# ---------------------------------------------------------------------------------------------------------

@st.composite
def fractal_case(draw):
    model = draw(st.sampled_from(['cantor_dust', 'multisponge', 'vicsek_fractal', 'rgb_fractal']))
    c = {'model': model, 'level': draw(st.integers(1, 8)), 'seed': draw(gen.SEED)}
    if model == 'cantor_dust':
        c['dimension'] = draw(st.sampled_from([1, 2, 3, 3, 4, 5]))
    elif model == 'rgb_fractal':
        c['n'] = draw(st.integers(1, 3))
        c['level'] = min(c['level'], 6 if c['n'] <= 2 else 4)
    else:
        c['dimension'] = draw(st.sampled_from([2, 3, 3, 4, 4, 5, 6]))
    if 'dimension' in c:
        while 3 ** (c['level'] * c['dimension']) > FRACTAL_MAX:
            c['level'] -= 1
    return c


FRACTAL_MAX = 6_000_000 if __import__('os').environ.get('VERIF_TIER') == 'thorough' else 600_000


def digits3(i, level):
    out = []
    for _ in range(level):
        out.append(i % 3)
        i //= 3
    return out[::-1]


def body_fractal(case):
    model, level = case['model'], case['level']
    lab = {model, 'level%d' % level}
    if model == 'rgb_fractal':
        rng = np.random.default_rng(case['seed'])
        n = case['n']
        # primaries are handed over independently as integer-typed 0/1 patterns or as fractional float matrices
        kinds = [rng.random() for _ in range(3)]
        # ... or with entries outside [0, 1] (signed weights, 0..3 intensities): the statement is about Kronecker powers, not images
        mats = [rng.integers(0, 2, (n, n)).astype(np.int64) if u < 0.35 else rng.uniform(0, 1, (n, n)) if u < 0.7 else
                rng.uniform(-1.5, 2.0, (n, n)) if u < 0.85 else rng.integers(-1, 4, (n, n)).astype(np.int64) for u in kinds]
        if any(np.min(m_) < 0 or np.max(m_) > 1 for m_ in mats):
            lab.add('entries_outside_unit_interval')
        if len({m_.dtype.kind for m_ in mats}) > 1:
            lab.add('mixed_dtype_primaries')
        f = mdl.rgb_fractal(mats[0].copy(), mats[1].copy(), mats[2].copy(), level)
        require(isinstance(f, np.ndarray) and f.shape == (n ** level, n ** level, 3), 'rgb_shape', 'shape %s' % (getattr(f, 'shape', None),))
        for c in range(3):
            k = np.ones((1, 1))
            for _ in range(level):
                k = np.kron(k, mats[c])
            close(f[:, :, c], k, 1e-13, 1.0, 'rgb_value', 'channel %d vs Kronecker power' % c)
        lab.add('other_size')
        return lab
    dim = case['dimension']

    def gen_entry(dg):
        mid = sum(1 for g in dg if g == 1)
        if model == 'cantor_dust':
            return 1 if mid == 0 else 0
        if model == 'multisponge':
            return 1 if mid <= 1 else 0
        return 1 if mid >= dim - 1 else 0

    f = getattr(mdl, model)(dim, level)
    side = 3 ** level
    require(isinstance(f, np.ndarray) and f.shape == (side,) * dim, 'fractal_shape', 'shape %s, expected %s' % (getattr(f, 'shape', None), (side,) * dim))
    # digit-wise definition, vectorised: entry = prod over levels of generator[base-3 digits of the coordinates at that level]
    dg = np.array([digits3(i, level) for i in range(side)])            # (side, level)
    want = np.ones((side,) * dim, dtype=int)
    for l in range(level):
        mid = np.zeros((side,) * dim, dtype=int)
        for ax in range(dim):
            shp = [1] * dim
            shp[ax] = side
            mid = mid + (dg[:, l] == 1).astype(int).reshape(shp)
        if model == 'cantor_dust':
            g = (mid == 0)
        elif model == 'multisponge':
            g = (mid <= 1)
        else:
            g = (mid >= dim - 1)
        want = want * g
    require(np.array_equal(np.asarray(f), want), 'fractal_value', '%s(%d,%d) differs from the digit-wise definition' % (model, dim, level))
    if case['seed'] % 2 == 0:
        # the caller owns what it was given: earlier results (the generator itself, level 1, and the picture just made) are rescaled
        # in place, as a plotting loop does, and the same fractal is asked for again
        g1 = getattr(mdl, model)(dim, 1)
        for arr in (g1, f):
            if isinstance(arr, np.ndarray) and arr.flags.writeable:
                arr *= 255
        f2 = getattr(mdl, model)(dim, level)
        require(isinstance(f2, np.ndarray) and f2.shape == want.shape and np.array_equal(np.asarray(f2), want), 'fractal_value',
                '%s(%d,%d) asked for again after earlier results were rescaled in place by the caller' % (model, dim, level))
        lab.add('earlier_results_modified_by_caller')
    lab.add('dim%d' % dim)
    lab.add('other_size')
    return lab


# ---------------------------------------------------------------------------------------------------------
# sizes that cannot be matricised: TT-form identities only
# ---------------------------------------------------------------------------------------------------------

@st.composite
def large_case(draw):
    model = draw(st.sampled_from(['co_oxidation', 'toll_station', 'signaling_cascade', 'two_step', 'qfan', 'exciton_chain', 'ising']))
    c = {'model': model, 'seed': draw(gen.SEED)}
    if model == 'co_oxidation':
        c['order'] = draw(st.integers(7, 14))
        c['k_exp'] = draw(st.floats(-2, 6))
        c['cyclic'] = draw(st.booleans())
    elif model == 'toll_station':
        c['lanes'] = draw(st.integers(6, 9))
        c['cars'] = draw(st.integers(2, 4))
    elif model == 'signaling_cascade':
        c['d'] = draw(st.integers(5, 7))
    elif model == 'two_step':
        c['k'] = [draw(st.floats(0.01, 10.0)) for _ in range(3)]
        c['m'] = draw(st.integers(4, 5))
    elif model == 'qfan':
        c['k'] = draw(st.integers(6, 9))
    elif model == 'exciton_chain':
        c['n'] = draw(st.integers(8, 14))
        c['alpha'] = draw(NUM(-2, 2))
        c['beta'] = draw(NUM(-2, 2))
    else:
        c['d'] = draw(st.integers(9, 14))
        c['J'] = draw(st.floats(-2, 2))
        c['h'] = draw(st.floats(-2, 2))
    return c


def body_large(case):
    rng = np.random.default_rng(case['seed'])
    model = case['model']
    lab = {model, 'tt_form', 'other_size'}
    if model == 'co_oxidation':
        op = mdl.co_oxidation(case['order'], float(10.0 ** case['k_exp']), cyclic=case['cyclic'])
        require_consistent(op, 'consistent')
        require(op.row_dims == [3] * case['order'] and op.col_dims == [3] * case['order'], 'dims', 'dims of co_oxidation')
        is_generator_tt(op.cores, rng, 'co_oxidation', samples=200)
    elif model == 'toll_station':
        op = mdl.toll_station(case['lanes'], case['cars'])
        require_consistent(op, 'consistent')
        is_generator_tt(op.cores, rng, 'toll_station', samples=200)
    elif model == 'signaling_cascade':
        op = mdl.signaling_cascade(case['d'])
        require_consistent(op, 'consistent')
        is_generator_tt(op.cores, rng, 'signaling_cascade', samples=200)
    elif model == 'two_step':
        op = mdl.two_step_destruction(case['k'][0], case['k'][1], case['k'][2], case['m'])
        require_consistent(op, 'consistent')
        is_generator_tt(op.cores, rng, 'two_step', samples=200)
    elif model == 'qfan':
        g = mdl.qfan(case['k'])
        require_consistent(g, 'consistent')
        unitary_tt(g.cores, 'qfan_unitary')
    elif model == 'exciton_chain':
        n, a, b = case['n'], case['alpha'], case['beta']
        op = mdl.exciton_chain(n, a, b)
        require_consistent(op, 'consistent')
        # Hermitian: ||H - H^H|| = 0 in TT form; and random matrix elements against the defining formula
        diff = dense.tt_add(op.cores, dense.tt_scale(dense.tt_adjoint(op.cores), -1.0))
        nH = dense.tt_norm(op.cores)
        require(dense.tt_norm(diff) <= 1e-6 * max(nH, 1e-300), 'exciton_hermitian', '||H - H^H|| = %.3e' % dense.tt_norm(diff))
        for _ in range(60):
            r = [int(rng.integers(2)) for _ in range(n)]
            kind = rng.integers(3)
            c_ = list(r)
            if kind == 0:
                want = a * sum(r)                                   # diagonal: alpha * number of excitations
            else:
                i = int(rng.integers(n))
                j = (i + 1) % n
                if r[i] == r[j]:
                    continue
                c_[i], c_[j] = r[j], r[i]                           # hopping between neighbours (periodic)
                want = b * (2.0 if n == 2 else 1.0)
            e = dense.tt_entry(op.cores, r, c_)
            require(abs(e - want) <= 1e-10 * (abs(a) + abs(b) + 1e-3) * n, 'exciton_value', 'entry %s <- %s is %s, expected %s' % (r, c_, e, want))
    else:
        d, J, h = case['d'], case['J'], case['h']
        t = mdl.ising(d, J, h)
        require_consistent(t, 'consistent')
        for _ in range(100):
            idx = [int(rng.integers(2)) for _ in range(d)]
            sgn = [1 - 2 * i for i in idx]
            want = -J * sum(sgn[i] * sgn[i + 1] for i in range(d - 1)) - h * sum(sgn)
            e = dense.tt_entry(t.cores, idx, [0] * d)
            require(abs(e - want) <= 1e-10 * (abs(J) + abs(h) + 1e-3) * d, 'ising_value', 'energy of %s is %s, expected %s' % (idx, e, want))
    return lab


def nt(labels):
    return bool({'other_size', 'non_default_option', 'random_rates', 'int_parameter', 'mixed_dtype_primaries'} & set(labels))


SUBCHECKS = [
    Sub('markov', markov_case(), body_markov, nt, quick=60, thorough=500, shards_quick=4, budget_quick=150,
        classes=['co_oxidation', 'signaling_cascade', 'toll_station', 'two_step', 'tt_form', 'non_default_option']),
    Sub('quantum', quantum_case(), body_quantum, nt, quick=40, thorough=200, shards_quick=4,
        classes=['qft', 'iqft', 'qfa', 'qfan', 'shor', 'tt_form']),
    Sub('physics', physics_case(), body_physics, nt, quick=200, thorough=2000,
        classes=['exciton_chain', 'ising', 'fpu', 'kuramoto']),
    Sub('large_tt_form', large_case(), body_large, nt, quick=25, thorough=150, shards_quick=4, budget_quick=150,
        classes=['co_oxidation', 'toll_station', 'signaling_cascade', 'two_step', 'qfan', 'exciton_chain', 'ising']),
    Sub('fractals', fractal_case(), body_fractal, nt, quick=60, thorough=200,
        classes=['cantor_dust', 'multisponge', 'vicsek_fractal', 'rgb_fractal']),
]
