"""C17 -- tensor-based DMD equals matrix DMD of the unfolded snapshots."""
import numpy as np
from hypothesis import strategies as st, assume

import scikit_tt.data_driven.tdmd as tdmd
from scikit_tt.tensor_train import TT
from vt import dense, gen, build
from vt.common import Sub, Violation, require
from vt.build import close, require_consistent

PROPERTY_ID = 'C17'

RULE = ('Hypothesis draws spatial mode sizes (1..3 modes of size 2..4, a size-1 mode now and then), the snapshot count m (2..8), '
        'the rank r <= min(N, m) of the snapshot matrix X = F G (exact low-rank factors) or, for a cut that really cuts, prescribed '
        'singular values (r in [0.1,1], 0.. further ones around 1e-5, threshold 1e-3 in the gap); Y = A X with a random linear map, or '
        'Y = low-TT-rank tensor + 1e-5 * full-rank perturbation; the TT representation of X and Y (harness TT-SVD, optionally '
        'followed by a random gauge; "preorth": exactly the sides whose ortho flag is switched off are orthonormal, the others '
        'generic; "orthonormal": both sides), threshold in {0, 1e-9, 1e-3}, a common scale factor 10^k of the snapshots (k in '
        '{-12,-3,0,6}; relative cuts are scale-invariant) and the variant (exact / standard). Oracle: matrix DMD '
        'with the same rank: eigenvalue multisets equal; exact modes satisfy (Y X^+) phi = lambda phi, standard modes satisfy '
        'U U^H (Y X^+) phi = lambda phi with phi in range(U) (scale-free eigen-equations); inputs unchanged; returned modes '
        'consistent. Non-trivial: rank-deficient X (r < min(N, m)), gauge, pre-orthonormalised input with flags off, >= 2 spatial '
        'modes, threshold > 0, an active cut or a perturbed low-rank Y.')
RULE += (' ' + 'Added classes: nearly symmetric dynamics (eigenvalues compared at 1e-9 when cond(X) < 1e3), a kept singular value 25 % above the cut line, NumPy-scalar thresholds; the inputs are compared bit by bit.')

ASSUMPTIONS = [
    'oracle: numpy.linalg.svd / eig of the dense snapshot matrices',
    'real data; DMD eigenvalues are simple and non-zero (|lambda| > 1e-3 max|lambda|, pairwise gaps > 1e-3 max|lambda|), otherwise the case '
    'is discarded (eigenvectors of nearly defective matrices are ill-conditioned, and the exact modes divide by lambda)',
    'the TT representation carries the exact rank of X at the last bond (no numerically zero singular values are inverted)',
    'ortho_l / ortho_r = False only on inputs that are already orthonormal on that side',
    'threshold 1e-3 only on representations whose orthonormalisation sweeps see singular values 1 or those of X itself (TT-SVD cores, '
    'fully orthonormal cores): on a generic gauge the sweeps apply the relative cut to local, representation-dependent spectra',
]


@st.composite
def dmd_case(draw):
    k = draw(st.integers(1, 3))
    dims = [draw(st.sampled_from([2, 2, 3, 4])) for _ in range(k)]
    if k >= 2 and draw(st.sampled_from([False, False, True])):
        dims[draw(st.integers(0, k - 1))] = 1
    N = int(np.prod(dims))
    m = draw(st.integers(2, 8))
    r = draw(st.integers(1, min(N, m)))
    rep = draw(st.sampled_from(['ttsvd', 'gauge', 'preorth', 'preorth', 'orthonormal']))
    flags = [draw(st.booleans()), draw(st.booleans())] if rep in ('preorth', 'orthonormal') else [True, True]
    case = {'dims': dims, 'm': m, 'r': r, 'rep': rep, 'flags': flags, 'threshold': draw(st.sampled_from([0, 0, 1e-9])),
            'variant': draw(st.sampled_from(['exact', 'standard'])), 'seed': draw(gen.SEED),
            'scale_exp': draw(st.sampled_from([0, 0, -3, -12, 6])), 'ykind': draw(st.sampled_from(['linear', 'linear', 'perturbed_lowrank', 'near_symmetric'])),
            'update_in_place': draw(st.sampled_from([False, True])), 'small_eig': draw(st.sampled_from([False, False, True]))}
    if rep in ('ttsvd', 'orthonormal') and draw(st.booleans()):
        # a cut that really cuts: prescribed singular values of X, `r` of them in [0.1, 1] and `small` of them around 1e-5,
        # with the threshold 1e-3 in the gap (only on representations whose orthonormalisation sweeps see singular values
        # 1 or the singular values of X itself, so that "the same relative cut" is well defined)
        case['threshold'] = 1e-3
        case['small'] = draw(st.integers(0, min(N, m) - r))
        # the smallest kept singular value only 25 % above the cut line (1.25e-3 s_0): kept by "s / s[0] > threshold", lost by any
        # other normalisation of the cut
        case['tight_sv'] = r >= 2 and draw(st.booleans())
        # a coarse cut: threshold 0.3 with the cut singular values at 0.1 ... 0.2 (a sizeable part of the snapshots is discarded, by
        # the matrix method and by the tensor method alike)
        case['coarse_cut'] = draw(st.sampled_from([False, False, True]))
    return case


def to_tt(rng, mat, dims, m, rep, flags=(True, True)):
    cores = dense.tt_svd(mat.reshape(list(dims) + [m]), list(dims) + [m], [1] * (len(dims) + 1))
    if rep == 'gauge':
        cores = dense.gauge(cores, rng)
    if rep in ('preorth', 'orthonormal'):
        cores = dense.gauge(cores, rng)
        d = len(cores)
        both = rep == 'orthonormal'
        # 'preorth': exactly what a switched-off flag promises and nothing more -- ortho_r=False: the last core is
        # right-orthonormal; ortho_l=False: cores 0..d-3 are left-orthonormal (what svd(index=d-1) would do itself);
        # a side whose flag is on stays generic.  'orthonormal': both sides, whatever the flags.
        if both or not flags[1]:
            r_, n_, _, rr = cores[-1].shape
            q, rm = np.linalg.qr(cores[-1].reshape(r_, n_ * rr).T)
            cores[-1] = q.T.reshape(q.shape[1], n_, 1, rr)
            cores[-2] = np.tensordot(cores[-2], rm.T, axes=([3], [0]))
        if both or not flags[0]:
            for i in range(d - 2):
                a, b, _, c_ = cores[i].shape
                q, rm = np.linalg.qr(cores[i].reshape(a * b, c_))
                cores[i] = q.reshape(a, b, 1, q.shape[1])
                cores[i + 1] = np.tensordot(rm, cores[i + 1], axes=([1], [0]))
    return TT([np.array(c) for c in cores])


def match_multisets(a, b, tol):
    a, b = list(a), list(b)
    if len(a) != len(b):
        return False
    for v in a:
        j = int(np.argmin([abs(v - w) for w in b]))
        if abs(v - b[j]) > tol:
            return False
        b.pop(j)
    return True


def body(c):
    rng = np.random.default_rng(c['seed'])
    dims, m, r = c['dims'], c['m'], c['r']
    N = int(np.prod(dims))
    scale = 10.0 ** c.get('scale_exp', 0)       # DMD is invariant under a common rescaling of the snapshots
    small = c.get('small', 0)
    if c['threshold'] == 1e-3:
        F = np.linalg.qr(rng.standard_normal((N, r + small)))[0]
        Gm = np.linalg.qr(rng.standard_normal((m, r + small)))[0]
        sv = np.concatenate([np.sort(rng.uniform(0.1, 1.0, r))[::-1], 1e-5 * np.sort(rng.uniform(0.3, 1.0, small))[::-1]])
        sv[0] = 1.0
        if c.get('coarse_cut'):
            sv[:r] = np.maximum(sv[:r], 0.5)
            sv[r:] = 0.2 * rng.uniform(0.5, 1.0, small)
            sv[0] = 1.0
        elif c.get('tight_sv') and r >= 2:
            sv[r - 1] = 1.25e-3
        X = scale * ((F * sv) @ Gm.T)
    else:
        X = scale * (rng.standard_normal((N, r)) @ rng.standard_normal((r, m)))
    if c.get('ykind', 'linear') == 'perturbed_lowrank':
        # snapshots Y of low TT rank plus a perturbation of full rank at 1e-5: must not be truncated by the threshold,
        # which is a cut for the pseudoinverse of X only
        q = [1] + [1 + int(rng.integers(0, 2)) for _ in dims] + [1]
        Y0 = dense.contract([rng.standard_normal((q[i], (list(dims) + [m])[i], 1, q[i + 1])) for i in range(len(dims) + 1)]).reshape(N, m)
        Y = scale * (Y0 + 1e-5 * rng.standard_normal((N, m)))
    else:
        A = rng.standard_normal((N, N))
        if c.get('ykind') == 'near_symmetric':
            # reversible dynamics observed with a little noise: the linear map is symmetric up to 1e-7 (not up to rounding), so the
            # reduced matrix is nearly symmetric -- its eigenvalues are perfectly conditioned, which is why they are compared at
            # 1e-9 in this class (below)
            A = (A + A.T) / 2 + 1e-7 * rng.standard_normal((N, N))
        if c.get('small_eig') and r == N and c.get('ykind') != 'near_symmetric':
            # a fast-decaying direction: one DMD eigenvalue 3e-4 times the largest (X spans the whole space, so the reduced matrix
            # is similar to A).  The threshold is a cut on the singular values of X, not on the spectrum of the dynamics.
            lamA = np.linspace(0.5, 1.5, N) * np.where(rng.random(N) < 0.5, -1.0, 1.0)
            lamA[0] = 3e-4 * 1.5
            Q = np.eye(N) + 0.3 * rng.standard_normal((N, N))
            if np.linalg.cond(Q) < 30:
                A = (Q * lamA) @ np.linalg.inv(Q)
        Y = A @ X
    # matrix DMD (with the same relative cut)
    U, s, Vh = np.linalg.svd(X, full_matrices=False)
    U, s, Vh = U[:, :r], s[:r], Vh[:r]
    assume(s[-1] > 1e-5 * s[0])
    Xp = (Vh.T / s) @ U.T
    Ared = U.T @ Y @ Vh.T / s
    lam = np.linalg.eigvals(Ared)
    lmax = np.max(np.abs(lam))
    assume(lmax > 0 and np.min(np.abs(lam)) > (1e-5 if c.get('small_eig') else 1e-3) * lmax)
    gaps = [abs(lam[i] - lam[j]) for i in range(r) for j in range(i + 1, r)]
    assume(not gaps or min(gaps) > 1e-3 * lmax)
    x = to_tt(rng, X, dims, m, c['rep'], c['flags'])
    y = to_tt(rng, Y, dims, m, 'ttsvd' if c['rep'] in ('preorth', 'orthonormal') else c['rep'])
    snaps = [(t, build.snapshot(t)) for t in (x, y)]
    f = tdmd.tdmd_exact if c['variant'] == 'exact' else tdmd.tdmd_standard
    thr = 0.3 if (c.get('coarse_cut') and c['threshold'] == 1e-3) else c['threshold']
    ev, modes = f(x, y, threshold=np.float64(thr) if c['seed'] % 3 == 0 else thr, ortho_l=c['flags'][0], ortho_r=c['flags'][1])
    for t, sn in snaps:
        build.require_unchanged(t, sn, 'input of tdmd_' + c['variant'], strict=True)
    ev = np.asarray(ev)
    require(ev.ndim == 1 and ev.shape[0] == r, 'eigenvalue_count', '%d eigenvalues for a rank-%d snapshot matrix' % (ev.shape[0] if ev.ndim == 1 else -1, r))
    tol_ev = 1e-7
    if c.get('ykind') == 'near_symmetric' and s[0] < 1e3 * s[-1]:
        tol_ev = 1e-9             # normal reduced matrix (Bauer-Fike constant 1) and cond(X) < 1e3: rounding is ~1e-13
    require(match_multisets(ev, lam, tol_ev * lmax), 'eigenvalues', 'TDMD eigenvalues %s differ from matrix DMD %s' % (np.sort_complex(ev), np.sort_complex(lam)))
    require_consistent(modes, 'modes_consistent')
    require(modes.row_dims == dims + [r] and modes.col_dims == [1] * (len(dims) + 1), 'modes_dims', 'rows %s, expected %s' % (modes.row_dims, dims + [r]))
    Phi = dense.contract(modes.cores).reshape(N, r)
    M = Y @ Xp
    nM = np.linalg.norm(M, 2)
    P = U @ U.T
    for k in range(r):
        phi = Phi[:, k]
        nphi = np.linalg.norm(phi)
        require(nphi > 0 and np.all(np.isfinite(phi)), 'modes_nonzero', 'mode %d is zero or not finite' % k)
        if c['variant'] == 'exact':
            res = np.linalg.norm(M @ phi - ev[k] * phi)
            require(res <= 1e-6 * nM * nphi, 'exact_modes', 'mode %d: ||(Y X^+) phi - lambda phi|| = %.3e (||M|| ||phi|| = %.3e)' % (k, res, nM * nphi))
        else:
            out = np.linalg.norm(phi - P @ phi)
            require(out <= 1e-7 * nphi, 'standard_modes', 'mode %d is not in the range of U: %.3e' % (k, out / nphi))
            res = np.linalg.norm(P @ (M @ phi) - ev[k] * phi)
            require(res <= 1e-6 * nM * nphi, 'standard_modes', 'mode %d: ||U U^H (Y X^+) phi - lambda phi|| = %.3e' % (k, res))
    lab = {c['variant'], 'rep_' + c['rep']}
    if c.get('ykind') == 'near_symmetric':
        lab.add('nearly_symmetric_dynamics')
    if c.get('coarse_cut') and c['threshold'] == 1e-3 and c.get('small', 0):
        lab.add('coarse_cut_0.3')
    if c.get('tight_sv') and not c.get('coarse_cut') and c['threshold'] == 1e-3 and r >= 2:
        lab.add('singular_value_just_above_the_cut')
    if c.get('update_in_place') and c['flags'] == [True, True] and c['threshold'] != 1e-3:
        # streaming use: the snapshot core of the SAME tensor-train object is replaced (here: snapshots mixed by an invertible
        # matrix) and the decomposition is asked for again with identical options -- it must describe the new data
        Tm = np.eye(m) + 0.4 * rng.standard_normal((m, m))
        if np.linalg.cond(Tm) < 50:
            x.cores[-1] = np.einsum('aibc,ij->ajbc', x.cores[-1], Tm)
            X2 = X @ Tm
            U2, s2, Vh2 = np.linalg.svd(X2, full_matrices=False)
            U2, s2, Vh2 = U2[:, :r], s2[:r], Vh2[:r]
            lam2 = np.linalg.eigvals(U2.T @ Y @ Vh2.T / s2)
            l2 = np.max(np.abs(lam2))
            g2 = [abs(lam2[i] - lam2[j]) for i in range(r) for j in range(i + 1, r)]
            if s2[-1] > 1e-5 * s2[0] and l2 > 0 and np.min(np.abs(lam2)) > 1e-3 * l2 and (not g2 or min(g2) > 1e-3 * l2):
                ev2, _ = f(x, y, threshold=c['threshold'], ortho_l=True, ortho_r=True)
                ev2 = np.asarray(ev2)
                require(ev2.ndim == 1 and ev2.shape[0] == r and match_multisets(ev2, lam2, 1e-7 * l2), 'eigenvalues',
                        'after the snapshot core of the same object was replaced: TDMD eigenvalues %s, matrix DMD of the new data %s'
                        % (np.sort_complex(ev2), np.sort_complex(lam2)))
                lab.add('snapshot_core_replaced_in_place')
    if r < min(N, m):
        lab.add('rank_deficient')
    if len(dims) >= 2:
        lab.add('multi_mode')
    if c['threshold']:
        lab.add('threshold>0')
    if c['flags'] != [True, True]:
        lab.add('flags_off')
    if c['flags'] == [False, True] and c['rep'] == 'preorth':
        lab.add('only_left_preorthonormalised')
    if c['threshold'] == 1e-3:
        lab.add('cut_active' if small else 'threshold_1e-3')
    if c.get('ykind') == 'perturbed_lowrank':
        lab.add('y_perturbed_lowrank')
    if np.min(np.abs(lam)) < 1e-3 * lmax:
        lab.add('eigenvalue_below_1e-3_of_largest')
    if 1 in dims:
        lab.add('size1mode')
    if c.get('scale_exp', 0) != 0:
        lab.add('rescaled_data')
    if np.any(np.abs(np.imag(lam)) > 1e-9):
        lab.add('complex_eigenvalues')
    return lab


def nt(labels):
    return bool({'rank_deficient', 'rep_gauge', 'flags_off', 'multi_mode', 'threshold>0', 'rescaled_data', 'cut_active', 'y_perturbed_lowrank'} & set(labels))


SUBCHECKS = [
    Sub('tdmd', dmd_case(), body, nt, quick=300, thorough=3000, shards_quick=8,
        classes=['exact', 'standard', 'rank_deficient', 'rep_gauge', 'rep_preorth', 'flags_off', 'multi_mode', 'threshold>0', 'complex_eigenvalues',
                 'size1mode', 'rescaled_data', 'only_left_preorthonormalised', 'cut_active', 'y_perturbed_lowrank', 'snapshot_core_replaced_in_place']),
]
