"""C08 -- ALS eigen-solver returns consistent Ritz pairs and keeps exact eigenpairs; inverse power iteration."""
import os
import numpy as np
import scipy.linalg as sla
from hypothesis import strategies as st, assume

import scikit_tt.solvers.evp as evp
from scikit_tt.tensor_train import TT
from vt import dense, gen, build
from vt.common import Sub, Violation, require
from vt.build import close, require_consistent

PROPERTY_ID = 'C08'
THOROUGH = os.environ.get('VERIF_TIER') == 'thorough'
NMAX = 256 if THOROUGH else 64

RULE = ('Hypothesis draws mode sizes (order 1..4, N <= 64 quick / 256 thorough), a dense Hermitian operator with a drawn '
        'spectrum whose top eigenvalue is separated, optionally a Hermitian positive-definite right-hand operator (cond <= 10), '
        'real or complex data, TT conversion by the harness\' TT-SVD, a guess class (maximal ranks in a random gauge, rank 1, '
        'admissible, exact dominant eigentensor right-orthonormalised by the harness), solver eig/eigh/eigs, sigma, number_ev '
        '1..2, repeats 1..4 (conv_eps = 0, sometimes 1e-9), real = True/False, 0..2 deflation tensors with a shift. Oracles: dense scipy.linalg.eigh of the '
        '(shifted) pencil; Rayleigh quotient of the returned tensor; monotonicity of |lambda - sigma| in the sweep count; the '
        'metamorphic relation als(A, previous=P, shift=s) == als(A + s sum p p^H); for power_method the Rayleigh quotient with '
        'conjugation and the inverse-iteration bound tan(theta_k) <= rho^k tan(theta_0). Non-trivial: complex, deflation, '
        'generalised problem, number_ev = 2, or power method.')
RULE += (' ' + 'Added classes: size-1 modes, deflation tensors of any norm, a sensitivity probe for the deflation relation.')

ASSUMPTIONS = [
    'oracle: scipy.linalg.eigh on dense matrices; TT operators built by vt/dense.tt_svd',
    'guesses have full-rank interfaces (ranks admissible from both sides, continuous entries)',
    'the "exact eigenpair is retained" clause uses a right-orthonormal exact guess (the first half sweep solves a standard '
    'micro problem, which is the Rayleigh-Ritz problem only in an orthonormal frame); all other clauses run in arbitrary gauges',
    'extremal-pair clauses use eigh, or eig with sigma beyond the top of the spectrum; eigs only with micro systems of size >= 4 '
    'and number_ev = 1',
    'number_ev = 2 only with interior guess ranks >= 2 (a rank-1 frame cannot hold two eigenvectors; the sweep\'s block SVD '
    'is then exactly tied)',
    'power method: maximal-rank guess (exact inner solves), target eigenvalue isolated with rho <= 0.5; angles measured in the B-inner product for generalised problems',
]

DIMS = [d for d in [[2, 2], [2, 3], [3, 3], [4, 2], [4, 4], [2, 2, 2], [2, 3, 2], [3, 3, 3], [2, 2, 4], [4, 4, 4], [2, 2, 2, 2], [3, 2, 2, 3],
                    [4, 4, 4, 4], [3, 3, 3, 3], [2, 1, 2], [1, 3], [3, 1, 2], [2, 2, 1]] if int(np.prod(d)) <= NMAX]


def spectrum(rng, N):
    lam = np.sort(rng.uniform(0.0, 1.0, N))
    lam[-1] = lam[-2] + 0.15 + 0.1 * rng.uniform()       # separated top eigenvalue
    return lam * rng.uniform(0.5, 4.0) + rng.uniform(-2.0, 2.0)


def rnd_cores(rng, dims, ranks, cplx):
    return [build.rand_array(rng, (ranks[i], dims[i], 1, ranks[i + 1]), cplx) for i in range(len(dims))]


def admissible(draw, dims, cap=4, lo=1):
    d = len(dims)
    mr = dense.max_ranks(dims)
    return [1] + [draw(st.integers(min(lo, mr[i]), min(mr[i], cap))) for i in range(1, d)] + [1]


@st.composite
def als_case(draw):
    dims = draw(st.sampled_from(DIMS + [[3], [5], [8]]))
    d = len(dims)
    c = {'dims': dims, 'cplx': draw(st.booleans()), 'seed': draw(gen.SEED), 'gevp': draw(st.sampled_from([False, False, True])),
         'solver': draw(st.sampled_from(['eig', 'eigh', 'eigh', 'eigs'])), 'number_ev': draw(st.sampled_from([1, 1, 2])),
         'repeats': draw(st.integers(1, 4)), 'guess': draw(st.sampled_from(['maximal', 'rank1', 'admissible', 'exact'])),
         'n_prev': draw(st.sampled_from([0, 0, 1, 2])), 'shift': draw(st.sampled_from([-1.0, 0.5, 2.0])),
         'sigma_mode': draw(st.sampled_from(['above', 'above', 'inside', 'default'])),
         'real': draw(st.sampled_from([True, True, False])), 'conv_eps': draw(st.sampled_from([0, 0, 0, 1e-9])),
         'prev_norm': draw(st.sampled_from([1.0, 1.0, 0.4, 1.7, 2.5])),
         # an operator that is diagonal in the first mode, A = S (x) I + I (x) T: its eigentensors are e_k (x) v, with exact zeros in
         # the leading entries unless k = 0
         'diag_first_mode': draw(st.sampled_from([False, False, False, False, True]))}
    if c['guess'] == 'admissible':
        c['ranks'] = admissible(draw, dims, lo=2)
    if c['n_prev']:
        c['prev_ranks'] = [admissible(draw, dims, cap=2) for _ in range(c['n_prev'])]
    if c['number_ev'] == 2:
        # a frame of rank r can only carry number_ev eigenvectors if r >= number_ev (otherwise the block SVD in the sweep has
        # exactly tied singular values and its truncation is arbitrary)
        if c['guess'] == 'rank1':
            c['guess'] = 'admissible'
            c['ranks'] = [1] + [min(2, m) for m in dense.max_ranks(dims)[1:-1]] + [1]
        elif c['guess'] == 'admissible':
            c['ranks'] = [1] + [max(r, min(2, m)) for r, m in zip(c['ranks'][1:-1], dense.max_ranks(dims)[1:-1])] + [1]
    if c['solver'] == 'eigs':
        c['number_ev'] = 1
        if c['guess'] == 'rank1':
            c['guess'] = 'admissible'
            c['ranks'] = [1] + [min(2, m) for m in dense.max_ranks(dims)[1:-1]] + [1]
    return c


def setup(c):
    rng = np.random.default_rng(c['seed'])
    dims, cplx = c['dims'], c['cplx']
    d, N = len(dims), int(np.prod(dims))
    lam = spectrum(rng, N)
    A = dense.herm(rng, N, cplx, lam)
    A = (A + A.conj().T) / 2
    if c.get('diag_first_mode') and d >= 2 and not c['gevp'] and not c.get('prev_ranks') and dims[0] >= 2:
        n1, n2 = dims[0], N // dims[0]
        sdiag = np.sort(rng.uniform(0.0, 1.0, n1))
        sdiag[-1] = sdiag[-2] + 0.3
        sdiag = np.roll(sdiag, int(rng.integers(0, n1 - 1)))          # the largest entry is not the first one
        T = dense.herm(rng, n2, cplx, spectrum(rng, n2))
        T = (T + T.conj().T) / 2
        A = np.kron(np.diag(sdiag), np.eye(n2)) + np.kron(np.eye(n1), T)
    B = None
    if c['gevp']:
        B = dense.herm(rng, N, cplx, np.exp(rng.uniform(0, np.log(10.0), N)))
        B = (B + B.conj().T) / 2
    prev, P = [], []
    for r in c.get('prev_ranks', []):
        pc = rnd_cores(rng, dims, r, cplx)
        pv = dense.matrix(pc).reshape(-1)
        # deflation tensors of any norm: the term added is shift * p p^H for the tensor p that was handed over
        nrm = np.linalg.norm(pv) / c.get('prev_norm', 1.0)
        pc[0] = pc[0] / nrm
        prev.append(TT(pc))
        P.append(pv / nrm)
    Ash = A.copy()
    for pv in P:
        Ash = Ash + c['shift'] * np.outer(pv, pv.conj())
    w, V = sla.eigh(Ash, B) if B is not None else sla.eigh(Ash)
    return rng, A, B, Ash, w, V, prev


def make_guess(c, rng, w, V):
    dims, cplx = c['dims'], c['cplx']
    if c['guess'] == 'exact':
        v = V[:, -1]
        cores = dense.vec_cores(v, dims)
        return TT(dense.qr_right(cores))
    if c['guess'] == 'maximal':
        ranks = dense.max_ranks(dims)
    elif c['guess'] == 'rank1':
        ranks = [1] * (len(dims) + 1)
    else:
        ranks = c['ranks']
    return TT(rnd_cores(rng, dims, ranks, cplx))


def N_of(dims):
    return int(np.prod(dims))


def rayleigh(x, A, B):
    num = np.vdot(x, A @ x)
    den = np.vdot(x, B @ x) if B is not None else np.vdot(x, x)
    return num / den


def body_als(c):
    rng, A, B, Ash, w, V, prev = setup(c)
    dims = c['dims']
    d = len(dims)
    op = TT(dense.op_cores(A, dims))
    opB = TT(dense.op_cores(B, dims)) if B is not None else None
    g = make_guess(c, rng, w, V)
    spread = w[-1] - w[0]
    sigma = {'above': w[-1] + 0.3 * spread, 'inside': w[0] + 0.37 * spread, 'default': 1}[c['sigma_mode']]
    solver = c['solver']
    if solver == 'eigs':
        # shift-invert ARPACK: keep sigma away from the spectrum and micro systems large enough
        sigma = w[-1] + 0.3 * spread
        assume(min(g.ranks[i] * dims[i] * g.ranks[i + 1] for i in range(d)) >= 4)
    nev = c['number_ev']
    if nev == 2:
        assume(min(g.ranks[i] * dims[i] * g.ranks[i + 1] for i in range(d)) >= 3)
    snaps = [(t, build.snapshot(t)) for t in [op, g] + prev + ([opB] if opB is not None else [])]
    lab = {solver, 'guess_' + c['guess'], 'sigma_' + c['sigma_mode'], 'nev%d' % nev}
    if c.get('diag_first_mode') and len(c['dims']) >= 2 and not c['gevp'] and not c.get('prev_ranks') and c['dims'][0] >= 2:
        lab.add('operator_diagonal_in_first_mode')
    if c['cplx']:
        lab.add('complex')
    if not c.get('real', True):
        lab.add('real_false')
    if c.get('conv_eps', 0):
        lab.add('conv_eps>0')
    if d == 1:
        lab.add('order1')
    if prev:
        lab.add('deflation')
        if c.get('prev_norm', 1.0) != 1.0:
            lab.add('deflation_tensor_not_normalised')
    if B is not None:
        lab.add('generalised')
    scale = max(abs(w[0]), abs(w[-1]), 1.0)
    tol = 1e-8 * scale

    def run(operator, previous, repeats):
        kw = dict(operator_gevp=opB, number_ev=nev, repeats=repeats, conv_eps=c.get('conv_eps', 0), solver=solver, sigma=sigma)
        if not c.get('real', True):
            kw['real'] = False        # eigenvalues are handed back without taking real parts (Hermitian problem: imaginary part 0)
        if previous:
            kw.update(previous=previous, shift=c['shift'])
        ev, et, it = evp.als(operator, g, **kw)
        evl = [ev] if nev == 1 else list(ev)
        for v in evl:
            require(abs(complex(v).imag) <= tol, 'real_eigenvalues', 'eigenvalue %r of a Hermitian problem has an imaginary part' % (v,))
        evl = [float(complex(v).real) for v in evl]
        return (evl[0] if nev == 1 else evl), et, it

    lams = []
    for k in range(1, c['repeats'] + 1):
        ev, et, it = run(op, prev, k)
        if c.get('conv_eps', 0) == 0:
            require(it == k, 'iterations', 'conv_eps=0: %d iterations reported for repeats=%d' % (it, k))
        else:
            require(1 <= it <= k, 'iterations', 'conv_eps>0: %d iterations reported for repeats=%d' % (it, k))
        evs = [ev] if nev == 1 else list(ev)
        ets = [et] if nev == 1 else list(et)
        require(len(evs) == nev and len(ets) == nev, 'number_ev', '%d eigenvalues / %d eigentensors for number_ev=%d' % (len(evs), len(ets), nev))
        for lam, x in zip(evs, ets):
            require_consistent(x, 'consistent')
            require(x.row_dims == dims and x.col_dims == [1] * d, 'dims', 'rows %s' % x.row_dims)
            xv = dense.matrix(x.cores).reshape(-1)
            require(np.all(np.isfinite(xv)) and np.isfinite(lam), 'finite', 'non-finite result')
            rq = rayleigh(xv, Ash, B)
            require(abs(rq.imag) <= tol and abs(rq.real - lam) <= tol, 'rayleigh',
                    'reported eigenvalue %r but Rayleigh quotient of the returned tensor is %r (repeats %d)' % (lam, rq, k))
            if B is None:
                require(abs(np.linalg.norm(xv) - 1) <= 1e-9, 'unit_norm', '||x|| = %.12f' % np.linalg.norm(xv))
            require(lam <= w[-1] + tol, 'upper_bound', 'eigenvalue %.10f exceeds lambda_max %.10f' % (lam, w[-1]))
        lams.append((evs, ets))
    for t, s in snaps:
        build.require_unchanged(t, s, 'argument of evp.als')
    # a second call with identical arguments gives identical eigenvalues (no state carried over between calls,
    # e.g. through the mutable default of `previous`)
    ev_again, _, _ = run(op, prev, c['repeats'])
    a1 = np.atleast_1d(np.asarray(lams[-1][0], dtype=float))
    a2 = np.atleast_1d(np.asarray(ev_again, dtype=float))
    close(a2, a1, 1e-12, scale, 'repeatable', 'eigenvalues of a second call with identical arguments')
    if nev == 1:
        for k in range(len(lams) - 1):
            a, b = abs(lams[k][0][0] - sigma), abs(lams[k + 1][0][0] - sigma)
            require(b <= a + tol, 'monotone_in_sweeps', '|lambda - sigma| grew from %.10f (%d sweeps) to %.10f' % (a, k + 1, b))
    extremal = solver == 'eigh' or (solver in ('eig', 'eigs') and c['sigma_mode'] == 'above') or solver == 'eigs'
    top_gap = (w[-1] - w[-2]) / spread
    if extremal and nev == 1 and top_gap > 0.02:
        ev1, et1 = lams[0][0][0], lams[0][1][0]
        xv = dense.matrix(et1.cores).reshape(-1)
        v = V[:, -1]
        if B is None:
            ov = abs(np.vdot(v, xv)) / (np.linalg.norm(v) * np.linalg.norm(xv))
        else:
            ov = abs(np.vdot(v, B @ xv)) / np.sqrt(abs(np.vdot(v, B @ v)) * abs(np.vdot(xv, B @ xv)))
        if c['guess'] == 'exact':
            require(abs(ev1 - w[-1]) <= tol, 'exact_retained', 'exact dominant eigentensor as guess: eigenvalue %.10f, exact %.10f' % (ev1, w[-1]))
            require(ov >= 1 - 1e-7, 'exact_retained', 'exact dominant eigentensor as guess: overlap %.3e below 1' % (1 - ov))
        if c['guess'] == 'maximal':
            require(abs(ev1 - w[-1]) <= 1e-7 * scale, 'exact_at_full_rank', 'maximal-rank guess: eigenvalue %.10f, exact %.10f' % (ev1, w[-1]))
            require(ov >= 1 - 1e-6, 'exact_at_full_rank', 'maximal-rank guess: overlap defect %.3e' % (1 - ov))
    if extremal and nev == 2 and d == 1 and N_of(dims) >= 3 and min(w[-1] - w[-2], w[-2] - w[-3]) > 0.02 * spread:
        got = sorted(lams[0][0], reverse=True)
        require(abs(got[0] - w[-1]) <= 1e-7 * scale and abs(got[1] - w[-2]) <= 1e-7 * scale, 'exact_at_full_rank',
                'order 1 (the micro problem is the full problem), number_ev=2: got %s, exact top two %s' % (got, [w[-1], w[-2]]))
        lab.add('nev2_exact_checked')
    # metamorphic: deflation with a shift == explicitly shifted operator
    if prev:
        opS = TT(dense.op_cores(Ash, dims))
        ev2, et2, _ = run(opS, [], c['repeats'])
        evs2 = [ev2] if nev == 1 else list(ev2)
        ets2 = [et2] if nev == 1 else list(et2)
        # conditioning of the relation itself: the two runs differ by rounding only, but an interior target in a dense spectrum makes
        # the sweep map chaotic (a guess perturbed by 1e-14 gives eigenvalues 1e-9 apart after two sweeps, 1e-5 after three).
        # The same solver is therefore run from a guess perturbed at 1e-13: if that alone moves the eigenvalue by more than
        # 1e-10 * scale nothing can be concluded from a comparison at 1e-7.
        stable = True
        if c['repeats'] >= 2:
            g_save = g
            gp = g.copy()
            prng = np.random.default_rng(c['seed'] + 99)
            for ci in range(len(gp.cores)):
                gp.cores[ci] = gp.cores[ci] + 1e-13 * np.max(np.abs(gp.cores[ci])) * prng.standard_normal(gp.cores[ci].shape)
            g = gp
            try:
                ev3, _, _ = run(opS, [], c['repeats'])
            finally:
                g = g_save
            evs3 = [ev3] if nev == 1 else list(ev3)
            stable = all(abs(a_ - b_) <= 1e-10 * scale for a_, b_ in zip(evs2, evs3))
            lab.add('deflation_relation_stable' if stable else 'chaotic_interior_iteration')
        for (l1, x1), (l2, x2) in (zip(zip(*lams[-1]), zip(evs2, ets2)) if stable else []):
            require(abs(l1 - l2) <= 1e-7 * scale, 'deflation_equals_shift', 'deflation gives %.10f, explicitly shifted operator %.10f' % (l1, l2))
            a = dense.matrix(x1.cores).reshape(-1)
            b = dense.matrix(x2.cores).reshape(-1)
            ov = abs(np.vdot(a, b)) / (np.linalg.norm(a) * np.linalg.norm(b))
            require(ov >= 1 - 1e-6, 'deflation_equals_shift', 'eigentensors differ beyond a phase: overlap defect %.3e' % (1 - ov))
    return lab


# ---------------------------------------------------------------------------------------------------------
# inverse power iteration
# ---------------------------------------------------------------------------------------------------------

@st.composite
def power_case(draw):
    dims = draw(st.sampled_from([d for d in DIMS if int(np.prod(d)) <= 64]))
    return {'dims': dims, 'cplx': draw(st.booleans()), 'seed': draw(gen.SEED), 'gevp': draw(st.sampled_from([False, False, True])),
            'repeats': draw(st.integers(1, 5)), 'target': draw(st.floats(0.0, 1.0)), 'side': draw(st.sampled_from([-1, 1])),
            # a shift within 1e-6 of the target and 60 iterations: the un-normalised iterate would grow by 1e6 per step
            'close_shift': draw(st.sampled_from([False] * 7 + [True]))}


def body_power(c):
    rng = np.random.default_rng(c['seed'])
    dims, cplx = c['dims'], c['cplx']
    d, N = len(dims), int(np.prod(dims))
    lam = np.sort(rng.uniform(0.0, 1.0, N)) * 3.0
    j = int(round(c['target'] * (N - 1)))
    # isolate the target eigenvalue: neighbours at distance >= 0.3, sigma at distance 0.06 -> rho <= 0.25
    lam[:j] -= 0.3
    lam[j + 1:] += 0.3
    sigma = float(lam[j] + 0.06 * c['side'])
    if c.get('close_shift') and N <= 16:
        sigma = float(lam[j] + 1e-6 * c['side'])
        c = dict(c, repeats=60)
    D = dense.herm(rng, N, cplx, lam)
    B = None
    if c['gevp']:
        B = dense.herm(rng, N, cplx, np.exp(rng.uniform(0, np.log(4.0), N)))
        B = (B + B.conj().T) / 2
        L = np.linalg.cholesky(B)
        A = L @ D @ L.conj().T                    # the pencil (A, B) has exactly the eigenvalues lam
    else:
        A = D
    A = (A + A.conj().T) / 2
    op = TT(dense.op_cores(A, dims))
    opB = TT(dense.op_cores(B, dims)) if B is not None else None
    g = TT(rnd_cores(rng, dims, dense.max_ranks(dims), cplx))
    snaps = [(t, build.snapshot(t)) for t in [op, g] + ([opB] if opB is not None else [])]
    ev, et = evp.power_method(op, g, operator_gevp=opB, repeats=c['repeats'], sigma=sigma)
    require_consistent(et, 'consistent')
    require(et.row_dims == dims, 'dims', 'rows %s' % et.row_dims)
    for t, s in snaps:
        build.require_unchanged(t, s, 'argument of power_method')
    xv = dense.matrix(et.cores).reshape(-1)
    rq = rayleigh(xv, A, B)
    require(abs(ev - rq) <= 1e-8 * max(abs(rq), 1.0), 'power_rayleigh', 'reported %r, Rayleigh quotient of the returned tensor %r' % (ev, rq))
    lab = {'power_method', 'repeats%d' % c['repeats']}
    if c.get('close_shift') and N <= 16:
        lab.add('shift_1e-6_from_target_60_iterations')
    if cplx:
        lab.add('complex')
    if B is not None:
        lab.add('generalised')
    x0 = dense.matrix(g.cores).reshape(-1)
    w, V = sla.eigh(A, B) if B is not None else sla.eigh(A)       # V^H B V = I
    k = int(np.argmin(np.abs(w - sigma)))
    others = np.delete(w, k)
    rho = abs(w[k] - sigma) / np.min(np.abs(others - sigma))

    def tan_theta(x):
        coef = V.conj().T @ ((B @ x) if B is not None else x)    # coordinates in the (B-)orthonormal eigenbasis
        ck = abs(coef[k])
        rest = float(np.linalg.norm(np.delete(coef, k)))        # (not sqrt(|coef|^2 - ck^2): that difference resolves only sqrt(eps) = 1.5e-8)
        return rest / max(ck, 1e-300)

    t0, tk = tan_theta(x0), tan_theta(xv)
    require(tk <= rho ** c['repeats'] * t0 * (1 + 1e-6) + 1e-8, 'power_convergence',
            'tan(theta) = %.3e after %d steps, bound rho^k tan(theta_0) = %.3e (rho %.3f)' % (tk, c['repeats'], rho ** c['repeats'] * t0, rho))
    return lab


def nt(labels):
    return bool({'complex', 'deflation', 'generalised', 'nev2', 'power_method'} & set(labels))


SUBCHECKS = [
    Sub('als', als_case(), body_als, nt, quick=300, thorough=3000, shards_quick=8, budget_quick=120,
        classes=['eig', 'eigh', 'eigs', 'complex', 'deflation', 'generalised', 'nev2', 'guess_exact', 'guess_maximal', 'guess_rank1',
                 'sigma_inside', 'sigma_above']),
    Sub('power', power_case(), body_power, nt, quick=150, thorough=1500, shards_quick=4, budget_quick=120,
        classes=['complex', 'generalised', 'repeats1', 'repeats5']),
]
