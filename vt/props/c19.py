"""C19 -- generator EDMD: product-rule evaluation and reduced matrix match the dense ones."""
import io
import itertools
import contextlib
import numpy as np
from numpy.polynomial import legendre as L
from hypothesis import strategies as st, assume

import scikit_tt.data_driven.tgedmd as tg
import scikit_tt.data_driven.transform as tdt
from vt import dense, gen, build
from vt.common import Sub, Violation, require
from vt.build import close
from vt.props.c17 import match_multisets

PROPERTY_ID = 'C19'

RULE = ('Hypothesis draws the state dimension d (1..6), the number of diffusion columns d2 (1..3, non-square diffusion is a '
        'tracked class), 2..4 modes with 1..3 twice-differentiable basis functions each (constant, identity, monomial, Legendre, '
        'sin, cos, Gauss, and user-defined functions of two coordinates x_i x_j, sin(x_i + c x_j) with mixed second derivatives; explicit dimension), index tuples, data size m (4..10), drift present/absent (non-reversible / '
        'reversible), reweighting on/off, an absolute or relative threshold far below the singular values, the return option and '
        'num_eigvals. Oracles: (1) generator_on_product and generator_on_product_reversible against the generator applied to the '
        'product via the product rule, assembled by the harness from its own closed-form first and second derivatives of the '
        'elementary factors (value, gradient, Hessian of each); (2) eigenvalues of amuset_hosvd against the dense projected generator '
        'V^T W^1/2 (L Psi)^T U S^-1 resp. -1/2 sum_l w_l S^-1 U^T grad Psi_l a_l grad Psi_l^T U S^-1 built from an explicit Psi '
        'and numpy.linalg.svd. Non-trivial: non-square diffusion, reweighting, >= 3 modes, a coordinate shared by two modes, or the '
        'reversible variant.')
RULE += (' ' + 'Added classes: state dimension up to 6, user-defined functions of two coordinates with mixed second derivatives, basis objects used before.')

ASSUMPTIONS = [
    'tgEDMD: the dense reduced matrix has norm > 1e-8 and an eigenvector matrix of condition number < 1e5 (otherwise discarded)',
    'oracle: closed-form derivatives written in the harness (numpy.polynomial for Legendre), numpy.linalg.svd/eig',
    'product bases have at least two modes; basis functions are created with an explicit dimension',
    'thresholds lie far below the smallest non-zero singular value (no singular-value ratio of an unfolding of the weighted Psi in '
    '(1e-12, 1e-4)): the sequential SVD truncates at every mode, so a genuine cut is not comparable with a matrix SVD cut',
    'eigenvalue multisets are compared at 1e-6 relative to max|lambda|',
]

FAMS = ['constant', 'identity', 'monomial', 'legendre', 'sin', 'cos', 'gauss']
# user-defined elementary functions of two coordinates ("functions must be derived from data_driven.transform.Function"): their
# Hessians have mixed entries, which none of the library's own one-coordinate classes has
PAIR_FAMS = ['pair_product', 'sin_sum', 'norm2']          # (norm2 = sum_i x_i^2: reduces over the whole point)


class PairFunction(tdt.Function):
    """x_i * x_j  resp.  sin(x_i + c x_j), written against the documented interface (__call__, partial, partial2)"""

    def __init__(self, kind, i, j, c, dimension):
        super(PairFunction, self).__init__(dimension)
        self.kind, self.i, self.j, self.c = kind, i, j, c

    def _w(self, direction):
        # derivative of the inner argument x_i + c x_j with respect to x_direction
        return (1.0 if direction == self.i else 0.0) + (self.c if direction == self.j else 0.0)

    def __call__(self, t):
        self.check_call_input(t)
        if self.kind == 'norm2':
            return float(np.sum(np.asarray(t, dtype=float) ** 2))          # (a point is a vector of length d: no axis argument)
        if self.kind == 'pair_product':
            return t[self.i] * t[self.j]
        return np.sin(t[self.i] + self.c * t[self.j])

    def partial(self, t, direction):
        self.check_partial_input(t, direction)
        if self.kind == 'norm2':
            return 2.0 * t[direction]
        if self.kind == 'pair_product':
            return (t[self.j] if direction == self.i else 0.0) + (t[self.i] if direction == self.j else 0.0)
        return self._w(direction) * np.cos(t[self.i] + self.c * t[self.j])

    def partial2(self, t, direction1, direction2):
        self.check_partial2_input(t, direction1, direction2)
        if self.kind == 'norm2':
            return 2.0 if direction1 == direction2 else 0.0
        if self.kind == 'pair_product':
            return (1.0 if (direction1, direction2) == (self.i, self.j) else 0.0) + (1.0 if (direction1, direction2) == (self.j, self.i) else 0.0)
        return -self._w(direction1) * self._w(direction2) * np.sin(t[self.i] + self.c * t[self.j])


def fn_spec(draw, d):
    fam = draw(st.sampled_from(FAMS + (PAIR_FAMS if d >= 2 else [])))
    s = {'family': fam, 'index': draw(st.integers(0, d - 1))}
    if fam in PAIR_FAMS:
        s['index2'] = draw(st.integers(0, d - 1).filter(lambda j: j != s['index']))
        s['c'] = draw(st.sampled_from([1.0, 0.5, -2.0]))
        return s
    if fam == 'monomial':
        s['exponent'] = draw(st.integers(1, 3))
        s['prefactor'] = draw(st.sampled_from([1.0, 1.0, 2.5, -0.5]))
    elif fam == 'legendre':
        s['degree'] = draw(st.integers(1, 4))
    elif fam in ('sin', 'cos'):
        s['alpha'] = draw(st.sampled_from([1.0, 2.0, 0.5, -1.5]))
    elif fam == 'gauss':
        s['mean'] = draw(st.sampled_from([0.0, 0.4, -0.6]))
        s['variance'] = draw(st.sampled_from([1.0, 0.5, 2.0]))
    return s


def make_fn(s, d):
    fam, i = s['family'], s['index']
    if fam in PAIR_FAMS:
        return PairFunction(fam, i, s['index2'], s['c'], d)
    if fam == 'constant':
        if s.get('prefactor', 1.0) != 1.0:
            return tdt.Monomial(i, 0, prefactor=s['prefactor'], dimension=d)      # a scaled constant
        return tdt.ConstantFunction(i, dimension=d)
    if fam == 'identity':
        return tdt.Identity(i, dimension=d)
    if fam == 'monomial':
        if s.get('prefactor', 1.0) != 1.0:
            return tdt.Monomial(i, s['exponent'], prefactor=s['prefactor'], dimension=d)
        return tdt.Monomial(i, s['exponent'], dimension=d)
    if fam == 'legendre':
        return tdt.Legendre(i, s['degree'], dimension=d)
    if fam == 'sin':
        return tdt.Sin(i, s['alpha'], dimension=d)
    if fam == 'cos':
        return tdt.Cos(i, s['alpha'], dimension=d)
    return tdt.GaussFunction(i, s['mean'], s['variance'], dimension=d)


def g012(s, t):
    """value, first and second derivative of the one-dimensional factor at t (independent closed forms)"""
    fam = s['family']
    if fam == 'constant':
        return float(s.get('prefactor', 1.0)), 0.0, 0.0
    if fam == 'identity':
        return t, 1.0, 0.0
    if fam == 'monomial':
        e, c_ = s['exponent'], float(s.get('prefactor', 1.0))
        return c_ * t ** e, c_ * e * t ** (e - 1), (c_ * e * (e - 1) * t ** (e - 2) if e >= 2 else 0.0)
    if fam == 'legendre':
        c = np.zeros(s['degree'] + 1)
        c[-1] = 1
        return L.legval(t, c), L.legval(t, L.legder(c, 1)), (L.legval(t, L.legder(c, 2)) if s['degree'] >= 2 else 0.0)
    if fam == 'sin':
        a = s['alpha']
        return np.sin(a * t), a * np.cos(a * t), -a * a * np.sin(a * t)
    if fam == 'cos':
        a = s['alpha']
        return np.cos(a * t), -a * np.sin(a * t), -a * a * np.cos(a * t)
    mu, var = s['mean'], s['variance']
    e = np.exp(-0.5 * (t - mu) ** 2 / var)
    return e, -(t - mu) / var * e, ((t - mu) ** 2 / var ** 2 - 1.0 / var) * e


def vgh(s, x):
    """value, gradient (d,) and Hessian (d,d) of one elementary function at the point x (independent closed forms)"""
    d = len(x)
    g, H = np.zeros(d), np.zeros((d, d))
    if s['family'] == 'norm2':
        xx = np.asarray(x, dtype=float)
        return float(xx @ xx), 2.0 * xx, 2.0 * np.eye(d)
    if s['family'] == 'pair_product':
        i, j = s['index'], s['index2']
        g[i], g[j] = x[j], x[i]
        H[i, j] = H[j, i] = 1.0
        return float(x[i] * x[j]), g, H
    if s['family'] == 'sin_sum':
        i, j, c_ = s['index'], s['index2'], s['c']
        w = np.zeros(d)
        w[i], w[j] = 1.0, c_
        arg = x[i] + c_ * x[j]
        return float(np.sin(arg)), np.cos(arg) * w, -np.sin(arg) * np.outer(w, w)
    i = s['index']
    v0, v1, v2 = g012(s, x[i])
    g[i], H[i, i] = v1, v2
    return float(v0), g, H


def product_derivatives(specs, x):
    """F = prod_j f_j:  -> F, grad F (d,), hess F (d,d)   (product rule for factors with arbitrary gradients and Hessians)"""
    d = len(x)
    vals = [vgh(s, x) for s in specs]
    p = len(specs)
    F = float(np.prod([v[0] for v in vals]))
    grad = np.zeros(d)
    hess = np.zeros((d, d))
    for j in range(p):
        cj = float(np.prod([vals[l][0] for l in range(p) if l != j]))
        grad += cj * vals[j][1]
        hess += cj * vals[j][2]
        for v in range(p):
            if v == j:
                continue
            cjv = float(np.prod([vals[l][0] for l in range(p) if l not in (j, v)]))
            hess += cjv * np.outer(vals[j][1], vals[v][1])
    return F, grad, hess


@st.composite
def basis_case(draw, min_funcs=1):
    d = draw(st.sampled_from([1, 2, 2, 3, 3, 4, 5, 6]))
    d2 = draw(st.integers(1, 3))
    p = draw(st.integers(2, 4))
    phi = [[fn_spec(draw, d) for _ in range(draw(st.integers(min_funcs, 3)))] for _ in range(p)]
    return {'d': d, 'd2': d2, 'phi': phi, 'seed': draw(gen.SEED), 'num_form': draw(st.sampled_from(['float', 'float', 'float', 'int', 'fortran']))}


@st.composite
def product_case(draw):
    c = draw(basis_case())
    c['tuples'] = [[draw(st.integers(0, len(f) - 1)) for f in c['phi']] for _ in range(3)]
    return c


def common_labels(c):
    lab = set()
    if c['d2'] != c['d']:
        lab.add('nonsquare_sigma')
    if len(c['phi']) >= 3:
        lab.add('modes>=3')
    idx = [{s['index'] for s in f} | {s['index2'] for s in f if 'index2' in s} for f in c['phi']]
    if any(s['family'] in PAIR_FAMS for f in c['phi'] for s in f):
        lab.add('two_coordinate_function')
    if any(idx[a] & idx[b] for a in range(len(idx)) for b in range(a + 1, len(idx))):
        lab.add('shared_coordinate')
    if c.get('num_form', 'float') != 'float':
        lab.add('arrays_' + c['num_form'])
    if c.get('special_points'):
        lab.add('snapshots_on_special_points')
    if c.get('zero_drift') and not c.get('reversible', True):
        lab.add('zero_drift_array')
    return lab


def body_product(c):
    rng = np.random.default_rng(c['seed'])
    d, d2 = c['d'], c['d2']
    basis = [[make_fn(s, d) for s in f] for f in c['phi']]
    lab = common_labels(c)
    for tup in c['tuples']:
        if c.get('num_form') == 'int':
            # integer-typed point, drift and diffusion (lattice models): the result is still a real number
            x = rng.integers(-2, 3, d).astype(np.int64)
            b = rng.integers(-3, 4, d).astype(np.int64)
            sigma = rng.integers(-2, 3, (d, d2)).astype(np.int64)
        else:
            x = rng.uniform(-1, 1, d)
            b = rng.standard_normal(d)
            sigma = rng.standard_normal((d, d2))
            if c.get('num_form') == 'fortran':
                sigma = np.asfortranarray(sigma)
        specs = [c['phi'][k][tup[k]] for k in range(len(tup))]
        F, grad, hess = product_derivatives(specs, x)
        a = sigma @ sigma.T
        want = float(b @ grad + 0.5 * np.sum(a * hess))
        got = tg.generator_on_product(basis, tuple(tup), x, b, sigma)
        scale = 1.0 + abs(want) + np.linalg.norm(b) * np.linalg.norm(grad) + np.linalg.norm(a) * np.linalg.norm(hess)
        close(np.asarray(got, dtype=float), want, 1e-11, scale, 'generator_on_product', 'L(prod f) at %s for index tuple %s' % (x, tup))
        for i in range(d2):
            wr = float(grad @ sigma[:, i])
            gr = tg.generator_on_product_reversible(basis, tuple(tup), i, x, sigma)
            close(np.asarray(gr, dtype=float), wr, 1e-11, 1.0 + np.linalg.norm(grad) * np.linalg.norm(sigma), 'generator_on_product_reversible',
                  'grad(prod f) . sigma[:, %d] for index tuple %s' % (i, tup))
    return lab | {'product_rule'}


# ---------------------------------------------------------------------------------------------------------
# amuset_hosvd (tgEDMD)
# ---------------------------------------------------------------------------------------------------------

@st.composite
def tgedmd_case(draw):
    c = draw(basis_case(min_funcs=2))
    # a constant in the first mode keeps Psi from vanishing
    c['phi'][0][0] = {'family': 'constant', 'index': 0}
    # overall scale of Psi (absolute and relative thresholds must be told apart): every function of mode 0 is multiplied ...
    c['scale_exp'] = draw(st.sampled_from([0, 0, -8, 6, -14]))
    # "no cut at all": threshold 0 (only on transformed data of full rank, every singular value is then inverted)
    c['threshold_zero'] = draw(st.sampled_from([False, False, False, True]))
    c.update({'max_rank': draw(st.sampled_from([None, None, 1000, 2, 3, 4])),'m': draw(st.integers(4, 10)), 'reversible': draw(st.booleans()), 'reweight': draw(st.booleans()),
              'rel_threshold': draw(st.booleans()), 'threshold_exp': draw(st.sampled_from([-10, -9, -8])),
              'return_option': draw(st.sampled_from(['eigenfunctionevals', 'eigenvectors', 'eigentensors'])),
              'num_eigvals': draw(st.sampled_from([None, None, 1, 2, 3])),
              # snapshots exactly on special points of the basis functions (lattice data): zeros of factors, stationary points
              'special_points': draw(st.sampled_from([False, False, True])), 'zero_drift': draw(st.sampled_from([False, False, False, True])),
              # the progress option (a message every output_freq snapshots) must not change the result
              'output_freq': draw(st.sampled_from([None, None, 3, 7, 40]))})
    return c


def body_tgedmd(c):
    rng = np.random.default_rng(c['seed'])
    d, d2, m = c['d'], c['d2'], c['m']
    if c.get('scale_exp', 0):
        # ... by prepending a one-function mode holding the scaled constant 10^k (Psi, L Psi and grad Psi scale with it)
        c = dict(c)
        # (as the FIRST mode: an absolute threshold acts on every intermediate residual of the sequential SVD)
        c['phi'] = [[{'family': 'constant', 'index': 0, 'prefactor': 10.0 ** c['scale_exp']}]] + [list(f) for f in c['phi']]
    basis = [[make_fn(s, d) for s in f] for f in c['phi']]
    n = [len(f) for f in c['phi']]
    p = len(n)
    N = int(np.prod(n))
    X = rng.uniform(-1, 1, (d, m))
    if c.get('special_points'):
        X[rng.random((d, m)) < 0.35] = 0.0                  # zero of Identity / Sin / odd polynomials, stationary point of x^2, Cos, ...
        for f in c['phi']:
            for sp in f:
                if 'mean' in sp:
                    X[sp['index'], int(rng.integers(m))] = sp['mean']      # maximum of a Gauss bump
    sigma = rng.standard_normal((d, d2, m))
    b = None if c['reversible'] else rng.standard_normal((d, m))
    if b is not None and c.get('zero_drift'):
        b = np.zeros((d, m))             # "for any drift": a drift array that vanishes identically is still the non-reversible estimator
    if c.get('num_form') == 'int':
        # integer-typed drift and diffusion arrays (the snapshots stay generic: integer snapshots make Psi degenerate)
        sigma = rng.integers(-2, 3, (d, d2, m)).astype(np.int64)
        b = None if c['reversible'] else rng.integers(-3, 4, (d, m)).astype(np.int64)
    elif c.get('num_form') == 'fortran':
        X, sigma = np.asfortranarray(X), np.asfortranarray(sigma)
        b = None if b is None else np.asfortranarray(b)
    w = rng.uniform(0.3, 2.0, m) if c['reweight'] else None
    ww = w if w is not None else np.ones(m)
    # explicit Psi, L Psi and grad Psi
    tuples = list(itertools.product(*[range(k) for k in n]))
    Psi = np.zeros((N, m))
    LPsi = np.zeros((N, m))
    G = np.zeros((N, d, m))
    for l in range(m):
        a = sigma[:, :, l] @ sigma[:, :, l].T
        for r, tup in enumerate(tuples):
            specs = [c['phi'][k][tup[k]] for k in range(p)]
            F, grad, hess = product_derivatives(specs, X[:, l])
            Psi[r, l] = F
            G[r, :, l] = grad
            if b is not None:
                LPsi[r, l] = b[:, l] @ grad + 0.5 * np.sum(a * hess)
    Pw = Psi * np.sqrt(ww)[None, :]
    # guard bands on every unfolding of the weighted Psi
    T = Pw.reshape(n + [m])
    tz = bool(c.get('threshold_zero')) and not (c.get('max_rank') and c['max_rank'] < 1000)
    for k in range(1, p + 1):
        sv = np.linalg.svd(T.reshape(int(np.prod(n[:k])), -1), compute_uv=False)
        assume(sv[0] > 0 and not np.any((sv > 1e-12 * sv[0]) & (sv < 1e-4 * sv[0])))
        if tz:
            assume(not np.any(sv <= 1e-12 * sv[0]))          # full rank: nothing that a vanishing threshold would have to cut
    U, S, Vh = np.linalg.svd(Pw, full_matrices=False)
    r = int(np.sum(S > 1e-8 * S[0]))
    assume(r >= 1)
    U, S, Vh = U[:, :r], S[:r], Vh[:r]
    cap = c.get('max_rank')
    cap_binds = False
    if cap is not None and cap < 1000:
        # a cap on the ranks: "the same singular-value cut" is then the sequential (mode by mode) truncated SVD of Psi, replayed
        # here densely from the per-mode value matrices (re-weighting enters with the last mode, as documented)
        vm = [np.array([[vgh(sp, X[:, l])[0] for l in range(m)] for sp in f]) for f in c['phi']]
        R = np.ones((1, m))
        frames = []
        for i, v in enumerate(vm):
            C = R[:, None, :] * v[None, :, :]
            if i == p - 1:
                C = C * np.sqrt(ww)[None, None, :]
            Mx = C.reshape(R.shape[0] * v.shape[0], m)
            Ui, Si, Vi = np.linalg.svd(Mx, full_matrices=False)
            nz = int(np.sum(Si > 1e-8 * Si[0]))
            # guard band at the cap: the singular value kept last must be clearly larger than the first one dropped
            if nz > cap:
                cap_binds = True
                assume(Si[cap - 1] > 1.5 * Si[cap])
            k_i = min(nz, cap)
            frames.append(Ui[:, :k_i].reshape(R.shape[0], v.shape[0], k_i))
            R = Si[:k_i, None] * Vi[:k_i]
            S_last, Vh_last = Si[:k_i], Vi[:k_i]
        if cap_binds:
            Uf = frames[0].reshape(frames[0].shape[1], frames[0].shape[2])
            for fr in frames[1:]:
                Uf = np.tensordot(Uf, fr, axes=([Uf.ndim - 1], [0]))
            U = Uf.reshape(-1, Uf.shape[-1])
            S, Vh = S_last, Vh_last
            r = len(S)
    if b is not None:
        M = Vh @ np.diag(np.sqrt(ww)) @ LPsi.T @ U / S
    else:
        M = np.zeros((r, r))
        for l in range(m):
            a = sigma[:, :, l] @ sigma[:, :, l].T
            v = (G[:, :, l].T @ U) / S                 # (d, r)
            M += -0.5 * ww[l] * v.T @ a @ v
    lam, Wv = np.linalg.eig(M)
    nM = float(np.linalg.norm(M, 2))
    # the reduced matrix is invariant under a rescaling of Psi, so an absolute floor is meaningful: a spectrum that vanishes
    # altogether (every selected function stationary at every snapshot) cannot be compared relatively; and eigenvalues of a
    # (nearly) defective reduced matrix are not determined to 1e-6 (Bauer-Fike)
    assume(nM > 1e-8 and np.linalg.cond(Wv) < 1e5)
    lmax = max(np.max(np.abs(lam)), 1e-3 * nM)
    # far below every non-zero singular value (ratios >= 1e-4) but not negligible: 1e-6 relative, resp. 1e-6 * S[0] absolute --
    # confusing the two conventions on rescaled data cuts everything or nothing
    th = (10.0 ** max(c['threshold_exp'], -6)) * (1.0 if c['rel_threshold'] else S[0]) if c.get('scale_exp', 0) else \
        10.0 ** c['threshold_exp'] * (1.0 if c['rel_threshold'] else S[0])
    if tz:
        th = 0
    kw = dict(threshold=th, rel_threshold=c['rel_threshold'], return_option=c['return_option'])
    if c['num_eigvals'] is not None:
        kw['num_eigvals'] = c['num_eigvals']
    if c.get('max_rank'):
        kw['max_rank'] = c['max_rank']            # (1000: a cap above every rank is a no-op; 2..4 may bind)
    if c.get('output_freq'):
        kw['output_freq'] = c['output_freq']
    snap_X, snap_s = X.copy(), sigma.copy()
    used_before = c['seed'] % 4 == 0
    if used_before:
        # the same basis-function objects were used before, for another trajectory (snapshots in reverse order, rescaled)
        try:
            with contextlib.redirect_stdout(io.StringIO()):
                tg.amuset_hosvd(np.array(X[:, ::-1]) * 0.75, basis, np.array(sigma[:, :, ::-1]), b=None if b is None else np.array(b[:, ::-1]), reweight=w, **kw)
        except Exception:     # noqa -- history only, its data are not guarded
            pass
    with contextlib.redirect_stdout(io.StringIO()):
        out = tg.amuset_hosvd(X, basis, sigma, b=b, reweight=w, **kw)
    require(np.array_equal(X, snap_X) and np.array_equal(sigma, snap_s), 'inputs_unchanged', 'data or diffusion array modified')
    require(isinstance(out, tuple) and len(out) == 3, 'return_shape', 'expected (eigvals, result, ranks)')
    ev, res, ranks = out
    ev = np.asarray(ev)
    k = r if c['num_eigvals'] is None else min(r, c['num_eigvals'])
    require(ev.ndim == 1 and ev.shape[0] == k, 'eigenvalue_count', '%s eigenvalues, expected %d (rank %d, num_eigvals %s)' % (ev.shape, k, r, c['num_eigvals']))
    order = np.argsort(-lam)
    want = lam[order][:k]
    if k == r:
        require(match_multisets(list(ev), list(lam), 1e-6 * lmax), 'eigenvalues', 'tgEDMD %s vs dense projected generator %s' % (ev, lam[order]))
    else:
        # the k leading ones (descending real part); compare as multisets when the cut does not split a near-tie
        rest = lam[order][k:]
        if np.min(np.abs(np.real(want[-1]) - np.real(rest))) > 1e-5 * lmax:
            require(match_multisets(list(ev), list(want), 1e-6 * lmax), 'eigenvalues', 'leading %d eigenvalues %s vs dense %s' % (k, ev, want))
    require(list(ranks)[0] == 1 and list(ranks)[-1] == 1 and list(ranks)[p] == r, 'ranks', 'reported ranks %s, numerical rank of Psi %d' % (ranks, r))
    if c['return_option'] == 'eigenfunctionevals':
        res = np.asarray(res)
        require(res.shape == (k, m), 'return_shape', 'eigenfunction evaluations have shape %s, expected %s' % (res.shape, (k, m)))
    elif c['return_option'] == 'eigenvectors':
        res = np.asarray(res)
        require(res.shape == (r, k), 'return_shape', 'eigenvectors have shape %s, expected %s' % (res.shape, (r, k)))
    else:
        require(isinstance(res, list) and len(res) == k, 'return_shape', 'expected %d eigentensors' % k)
    lab = common_labels(c)
    lab.add('reversible' if c['reversible'] else 'non_reversible')
    if c['reweight']:
        lab.add('reweighting')
    lab.add('rel_threshold' if c['rel_threshold'] else 'abs_threshold')
    lab.add('ret_' + c['return_option'])
    if c['num_eigvals'] is not None and c['num_eigvals'] < r:
        lab.add('num_eigvals_cut')
    if r < min(N, m):
        lab.add('rank_deficient_psi')
    if c.get('scale_exp', 0):
        lab.add('rescaled_psi')
    if cap_binds:
        lab.add('max_rank_binds')
    if used_before:
        lab.add('basis_used_before')
    if tz:
        lab.add('threshold_zero')
    if c.get('output_freq'):
        lab.add('progress_output_requested')
    return lab


def nt(labels):
    return bool({'nonsquare_sigma', 'reweighting', 'modes>=3', 'shared_coordinate', 'reversible'} & set(labels))


SUBCHECKS = [
    Sub('product_rule', product_case(), body_product, nt, quick=500, thorough=5000, shards_quick=4,
        classes=['nonsquare_sigma', 'modes>=3', 'shared_coordinate', 'two_coordinate_function']),
    Sub('tgedmd', tgedmd_case(), body_tgedmd, nt, quick=120, thorough=1200, shards_quick=8, budget_quick=150,
        classes=['reversible', 'non_reversible', 'reweighting', 'nonsquare_sigma', 'rel_threshold', 'abs_threshold', 'ret_eigentensors',
                 'ret_eigenvectors', 'ret_eigenfunctionevals', 'num_eigvals_cut', 'modes>=3', 'rescaled_psi', 'two_coordinate_function']),
]
