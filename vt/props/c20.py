"""C20 -- quantum sampling draws from the Born distribution of the measured qubits."""
import os
import sys
import itertools
import numpy as np
from hypothesis import strategies as st, assume

try:
    import matplotlib.pyplot  # noqa: F401
except Exception:  # pragma: no cover - matplotlib is not installed here
    sys.path.insert(0, os.path.join(os.path.dirname(os.path.dirname(os.path.abspath(__file__))), 'stubs'))
import scikit_tt.quantum_computation as qc
from scikit_tt.tensor_train import TT
from vt import dense, gen, build
from vt.common import Sub, Violation, require
from vt.build import close

PROPERTY_ID = 'C20'

RULE = ('Hypothesis draws the qubit count (1..7 for entangled states with TT ranks 1..4; up to 80 qubits for tensor products of '
        'small entangled blocks), complex or real amplitudes, a non-empty sorted subset of measured sites and 1..200 samples (4096..10000 on some small registers); the '
        'harness normalises and right-orthonormalises the state and owns the uniform variates by handing the sampler a '
        'Hypothesis-seeded matrix through numpy.random.rand. Oracle: dense inverse-CDF sampling -- marginal of |psi|^2 over the '
        'unmeasured sites (block by block for product states), then bit by bit bit = [u > P(0 | previous bits)]; the returned '
        '(samples, frequencies) must equal numpy.unique of the predicted bit matrix exactly, rows distinct, frequencies summing to '
        'one, state untouched. If the sampler stops drawing exactly one (N, k) uniform matrix the check falls back to a chi-square '
        'test of 20000 samples against the exact marginal at level 1e-9. Non-trivial: complex amplitudes, bond rank >= 2, '
        'unmeasured sites present, or more than 20 qubits.')
RULE += (' ' + 'Added classes: a rare measurement branch with variates placed inside its mass, variates 1e-8 next to a decision boundary, measured sites in shuffled order (either column order accepted).')

ASSUMPTIONS = [
    'oracle: dense Born probabilities from the independently contracted state (vt/dense.py)',
    'the state is normalised and right-orthonormal (documented precondition); measured sites are a list without repetitions, in increasing order or (three or more sites) shuffled -- then the bit columns are accepted in site order or in list order',
    'uniform variates within 1e-9 of a decision boundary are discarded (assume)',
    'matplotlib is replaced by an import stub (vt/stubs); plotting is not exercised',
]


@st.composite
def state_case(draw):
    kind = draw(st.sampled_from(['entangled', 'entangled', 'blocks', 'blocks_large']))
    c = {'kind': kind, 'cplx': draw(st.sampled_from([True, True, False])), 'seed': draw(gen.SEED), 'useed': draw(gen.SEED),
         'samples': draw(st.sampled_from([1, 2, 5, 20, 60, 200])), 'gate_in_place': draw(st.sampled_from([False, True])),
         'signed': draw(st.sampled_from([False, False, True])), 'hadamard_gauge': draw(st.booleans()),
         # a rare branch: the amplitudes with one qubit of the first block in state 1 (or 0) are scaled by 2e-3 / 3e-4, so that
         # outcome has a conditional probability of 1e-5 ... 1e-8, and every third shot gets a variate inside that small mass
         'rare': draw(st.sampled_from([None, None, None, 2e-3, 3e-4])),
         # the measured sites handed over in another order than increasing (a subset has no order): the bit columns may then come
         # back in site order or in the order of the list, both are readings of "the measured sites"
         'shuffle_measure': draw(st.sampled_from([None, None, None, 1, 2, 3])),
         # every fourth shot gets one variate 1e-8 away from its decision boundary (the sampler works in double precision)
         'near_threshold': draw(st.sampled_from([False, False, True]))}
    if kind == 'entangled':
        n = draw(st.integers(1, 7))
        c['blocks'] = [n]
        c['rank'] = draw(st.integers(1, 4))
        if draw(st.sampled_from([False] * 5 + [True])):
            c['samples'] = draw(st.sampled_from([4096, 4097, 6000, 10000]))      # many shots on a small register
    elif kind == 'blocks':
        nb = draw(st.integers(2, 30))
        c['blocks'] = [draw(st.sampled_from([1, 2, 2, 3])) for _ in range(nb)]
        c['rank'] = 2
    else:
        nb = draw(st.integers(30, 40))
        c['blocks'] = [draw(st.sampled_from([2, 2, 3])) for _ in range(nb)]
        c['rank'] = 2
        c['kind'] = 'blocks'
    n = sum(c['blocks'])
    mode = draw(st.sampled_from(['all', 'subset', 'subset'])) if kind != 'blocks_large' else draw(st.sampled_from(['all', 'all', 'most']))
    if mode == 'most':
        drop = set(draw(st.lists(st.integers(0, n - 1), max_size=4, unique=True)))
        c['measure'] = [i for i in range(n) if i not in drop]
        return c
    if mode == 'all':
        c['measure'] = list(range(n))
    else:
        k = draw(st.integers(1, n))
        c['measure'] = sorted(draw(st.lists(st.integers(0, n - 1), min_size=k, max_size=k, unique=True)))
    return c


def block_state(rng, q, rank, cplx, signed=False, rare=None):
    """dense normalised state of q qubits with TT ranks <= rank, and its cores"""
    mr = dense.max_ranks([2] * q)
    r = [1] + [min(rank, mr[i]) for i in range(1, q)] + [1]
    cores = [build.rand_array(rng, (r[i], 2, 1, r[i + 1]), cplx) for i in range(q)]
    if signed:
        # stabiliser-like structure: every core entry is +1, -1 (or 0): GHZ / cluster / graph states in a +/- bond basis, where sums
        # of environment entries cancel EXACTLY although the probabilities do not
        cores = [rng.choice([1.0, -1.0, 1.0, -1.0, 0.0], size=c.shape).astype(c.dtype) for c in cores]
        if np.linalg.norm(dense.contract(cores)) == 0:
            cores = [np.ones_like(c) for c in cores]
    if rare:
        i = int(rng.integers(0, q))
        b = int(rng.integers(0, 2))
        cores[i] = np.array(cores[i], dtype=np.result_type(cores[i], float))
        cores[i][:, b, :, :] *= rare
    v = dense.contract(cores).reshape(-1)
    cores[0] = cores[0] / np.linalg.norm(v)
    return v / np.linalg.norm(v), cores


def predict_bits(psi, q, measured, U, rare=False, near=False):
    """inverse-CDF sampling for one block: psi dense (2^q), measured = local site indices (sorted), U (N x len(measured))
    -> bit matrix (N x len(measured)), minimal distance of a variate to a decision boundary"""
    P = (np.abs(psi) ** 2).reshape([2] * q)
    unm = tuple(i for i in range(q) if i not in measured)
    marg = P.sum(axis=unm) if unm else P                # axes = measured sites in order
    k = len(measured)
    N = U.shape[0]
    bits = np.zeros((N, k), dtype=int)
    mind = np.inf
    for s in range(N):
        cur = marg
        for j in range(k):
            p0 = cur[0].sum()
            p1 = cur[1].sum()
            tot = p0 + p1
            c0 = p0 / tot if tot > 0 else 0.5
            if rare and s % 3 == 0:
                # put this shot's variate into the middle of a rare outcome's mass (U is the caller's matrix: changed in place)
                if 0 < 1 - c0 < 1e-4:
                    U[s, j] = c0 + (1 - c0) / 2
                elif 0 < c0 < 1e-4:
                    U[s, j] = c0 / 2
            if near and s % 4 == 1 and j == (s // 4) % k and 1e-6 < c0 < 1 - 1e-6:
                # a variate 1e-8 above / below the decision boundary (ten times the guard band, a thousand times rounding)
                U[s, j] = c0 + (1e-8 if (s // 4) % 2 == 0 else -1e-8)
            mind = min(mind, abs(U[s, j] - c0))
            b = 1 if U[s, j] > c0 else 0
            bits[s, j] = b
            cur = cur[b]
    return bits, mind


def body(c):
    rng = np.random.default_rng(c['seed'])
    blocks = c['blocks']
    n = sum(blocks)
    cores, dense_blocks = [], []
    for q in blocks:
        v, cr = block_state(rng, q, c['rank'], c['cplx'], signed=bool(c.get('signed')),
                            rare=c.get('rare') if (not cores and not c.get('signed')) else None)
        dense_blocks.append(v)
        cores += cr
    if c.get('signed') and c.get('hadamard_gauge'):
        # keep the +/- structure: insert H H on every bond instead of a QR sweep, then right-orthonormalise only if needed
        Hd = np.array([[1.0, 1.0], [1.0, -1.0]]) / np.sqrt(2.0)
        for i in range(len(cores) - 1):
            if cores[i].shape[3] == 2:
                cores[i] = np.tensordot(cores[i], Hd, axes=([3], [0]))
                cores[i + 1] = np.tensordot(Hd, cores[i + 1], axes=([1], [0]))
    cores = dense.qr_right(cores)
    nrm = np.linalg.norm(cores[0])
    cores[0] = cores[0] / nrm
    state = TT(cores)
    snap = build.snapshot(state)
    measure = c['measure']
    k = len(measure)
    N = c['samples']
    U = np.random.default_rng(c['useed']).uniform(0, 1, (N, k))
    # prediction, block by block (blocks are independent: rank-1 bonds between them)
    def predict(dblocks):
        pred_ = np.zeros((N, k), dtype=int)
        col = 0
        off = 0
        mind_ = np.inf
        for q, v in zip(blocks, dblocks):
            loc = [s - off for s in measure if off <= s < off + q]
            if loc:
                bits, md = predict_bits(v, q, loc, U[:, col:col + len(loc)], rare=bool(c.get('rare')) and off == 0 and not c.get('signed'),
                                        near=bool(c.get('near_threshold')))
                pred_[:, col:col + len(loc)] = bits
                col += len(loc)
                mind_ = min(mind_, md)
            off += q
        return pred_, mind_

    pred, mind = predict(dense_blocks)
    assume(mind > 1e-9)
    calls = []
    orig = np.random.rand

    def fake_rand(*shape):
        calls.append(tuple(shape))
        if tuple(shape) == (N, k) and len(calls) == 1:
            return U.copy()
        return orig(*shape)

    mlist = list(measure)
    if c.get('shuffle_measure') and k >= 3:
        perm = np.random.default_rng(c['shuffle_measure'] + 100 * k).permutation(k)
        if not np.array_equal(perm, np.arange(k)):
            mlist = [measure[j] for j in perm]
    np.random.rand = fake_rand
    try:
        samples, freqs = qc.sampling(state, list(mlist), N)
    finally:
        np.random.rand = orig
    build.require_unchanged(state, snap, 'quantum state')
    samples = np.asarray(samples)
    freqs = np.asarray(freqs, dtype=float)
    require(samples.ndim == 2 and samples.shape[1] == k and freqs.shape == (samples.shape[0],), 'shape', 'samples %s, frequencies %s' % (samples.shape, freqs.shape))
    require(np.all((samples == 0) | (samples == 1)), 'bits', 'samples contain values other than 0/1')
    require(len({tuple(r) for r in samples.astype(int).tolist()}) == samples.shape[0], 'distinct', 'returned bit strings are not distinct')
    require(abs(freqs.sum() - 1) <= 1e-12 and np.all(freqs > 0), 'frequencies', 'frequencies sum to %.15f' % freqs.sum())
    lab = {c['kind']}
    if c.get('rare') and not c.get('signed'):
        lab.add('rare_branch')
    if c.get('near_threshold') and N >= 2:
        lab.add('variates_next_to_decision_boundaries')
    if c['cplx']:
        lab.add('complex')
    if c['rank'] >= 2 and max(blocks) >= 2:
        lab.add('entangled_rank>=2')
    if k < n:
        lab.add('unmeasured_sites')
    if n > 20:
        lab.add('qubits>20')
    if k > 64:
        lab.add('measured>64')
    if N > 4096:
        lab.add('samples>4096')
    if c.get('signed'):
        lab.add('sign_structured_state')
    if calls == [(N, k)]:
        want_s, want_c = np.unique(pred, return_counts=True, axis=0)
        ok = samples.shape == want_s.shape and np.array_equal(samples.astype(int), want_s) and np.allclose(freqs, want_c / N, rtol=0, atol=1e-12)
        if not ok and mlist != list(measure):
            # columns in the order of the list that was handed over
            alt_s, alt_c = np.unique(pred[:, [measure.index(s_) for s_ in mlist]], return_counts=True, axis=0)
            ok = samples.shape == alt_s.shape and np.array_equal(samples.astype(int), alt_s) and np.allclose(freqs, alt_c / N, rtol=0, atol=1e-12)
        if mlist != list(measure):
            lab.add('measured_sites_not_in_increasing_order')
        require(ok, 'inverse_cdf', 'returned %d outcomes %s with frequencies %s; predicted from the dense state: %s with %s'
                % (samples.shape[0], samples.astype(int).tolist()[:4], freqs[:4], want_s.tolist()[:4], (want_c / N)[:4]))
        lab.add('exact_prediction')
        if c.get('gate_in_place') and N <= 200:
            # circuit simulation: a single-qubit gate is applied to a core of the SAME state object (right-orthonormality and the
            # norm are preserved) and the register is sampled again with the same measured sites
            site = measure[c['seed'] % k]
            g = dense.rand_unitary(np.random.default_rng(c['seed'] + 7), 2, True)
            state.cores[site] = np.einsum('ij,ajbc->aibc', g, state.cores[site])
            off = 0
            new_blocks = []
            for q, v in zip(blocks, dense_blocks):
                if off <= site < off + q:
                    t = np.moveaxis(np.tensordot(g, v.reshape([2] * q), axes=([1], [site - off])), 0, site - off)
                    new_blocks.append(t.reshape(-1))
                else:
                    new_blocks.append(v)
                off += q
            pred2, mind2 = predict(new_blocks)
            if mind2 > 1e-9:
                calls.clear()
                np.random.rand = fake_rand
                try:
                    samples2, freqs2 = qc.sampling(state, list(measure), N)
                finally:
                    np.random.rand = orig
                if calls == [(N, k)]:
                    w_s, w_c = np.unique(pred2, return_counts=True, axis=0)
                    samples2 = np.asarray(samples2)
                    ok2 = samples2.shape == w_s.shape and np.array_equal(samples2.astype(int), w_s) and np.allclose(np.asarray(freqs2, dtype=float), w_c / N, rtol=0, atol=1e-12)
                    require(ok2, 'inverse_cdf', 'after a gate was applied to core %d of the same state object: returned %s with %s; predicted %s with %s'
                            % (site, samples2.astype(int).tolist()[:4], np.asarray(freqs2)[:4], w_s.tolist()[:4], (w_c / N)[:4]))
                    lab.add('state_updated_in_place')
    else:
        # the sampler no longer draws one (N, k) matrix: statistical fallback for small systems
        lab.add('chi_square_fallback')
        if n <= 10:
            from scipy.stats import chi2
            NN = 20000
            s2, f2 = qc.sampling(state, list(measure), NN)
            psi = dense.contract(state.cores).reshape([2] * n)
            P = np.abs(psi) ** 2
            unm = tuple(i for i in range(n) if i not in measure)
            marg = (P.sum(axis=unm) if unm else P).reshape(-1)
            obs = np.zeros(2 ** k)
            for row, f in zip(np.asarray(s2).astype(int), f2):
                obs[int(''.join(str(b) for b in row), 2)] = f * NN
            require(np.all(obs[marg < 1e-14] == 0), 'born_distribution', 'an outcome of probability zero was sampled')
            sel = marg >= 1e-14
            stat = float(np.sum((obs[sel] - NN * marg[sel]) ** 2 / (NN * marg[sel])))
            dof = max(int(sel.sum()) - 1, 1)
            require(stat <= chi2.ppf(1 - 1e-9, dof), 'born_distribution', 'chi-square %.1f with %d dof' % (stat, dof))
    return lab


def nt(labels):
    return bool({'complex', 'entangled_rank>=2', 'unmeasured_sites', 'qubits>20'} & set(labels))


SUBCHECKS = [
    Sub('sampling', state_case(), body, nt, quick=250, thorough=2500, shards_quick=8, budget_quick=150,
        classes=['entangled', 'blocks', 'complex', 'entangled_rank>=2', 'unmeasured_sites', 'qubits>20', 'measured>64', 'exact_prediction', 'samples>4096', 'state_updated_in_place']),
]
