"""C09 -- one-step ODE schemes reproduce their defining recurrences."""
import os
import math
import numpy as np
from hypothesis import strategies as st, assume

import scikit_tt.solvers.ode as ode
from scikit_tt.tensor_train import TT
from vt import dense, gen, build
from vt.common import Sub, Violation, require
from vt.build import close, require_consistent

PROPERTY_ID = 'C09'
THOROUGH = os.environ.get('VERIF_TIER') == 'thorough'
NMAX = 128 if THOROUGH else 36

RULE = ('Hypothesis draws mode sizes (order 1..4, N <= 36 quick / 128 thorough), an operator class (Markov generator: dense '
        'random or sum of local generators -- used with normalize = 1 so that states stay non-negative; arbitrary real/complex '
        'operator scaled to ||hA|| <= 0.5; for HOD a sum of <= 3 Kronecker terms, i.e. TT-rank <= 3), step-size lists of 1..4 '
        'different steps, ALS or MALS inner solver, micro-solver, repeats, normalize in {0,1,2}, HOD order in {2,3,4,6} with and '
        'without a previous value, initial guesses of maximal rank. Oracle: the dense recurrences x+ = (I+hA)x, (I-hA)x+ = x, '
        '(I-h/2 A)x+ = (I+h/2 A)x and the documented HOD three-term recurrence with its documented start, with the same '
        'normalisation fed back; the three defect formulas on arbitrary TT lists; ordering invariants of the adaptive method. '
        'Non-trivial: varying steps, normalize > 0, mals/lu, HOD order >= 4, an order-1 operator, or complex data.')
RULE += (' ' + 'Added classes: size-1 modes, order 5, MALS started from a rank-one guess (dense operator, repeats 3, chains (3,2,2,2,3), (2,3,2,2,3), (2,)*6, (2,)*5), mixed operand dtypes, a complex rank-2 operator given by its cores with a real-typed first core, rescaled states; the inputs of the adaptive method are compared bit by bit.')

ASSUMPTIONS = [
    'oracle: dense NumPy recurrences; operators converted with vt/dense.tt_svd',
    'no effective truncation: threshold at its default (1e-12) and max_rank at least the maximal ranks; implicit schemes start '
    'from a maximal-rank guess (then one ALS/MALS sweep solves each step exactly, cf. C07)',
    'normalize = 1 only with Markov generators, non-negative initial values and (explicit scheme) h*max|A_ii| <= 0.9, so that all '
    'states are non-negative (TT.norm(p=1) assumes non-negative entries)',
    'HOD operators have TT-rank <= 3 (op_hod has rank r^(order-1))',
    'error estimators: defect relative to ||x_i|| (Euler schemes) and to ||(I + h/2 A) x_i|| (trapezoidal rule), as implemented',
]

DIMS = [d for d in [[2], [4], [6], [2, 2], [2, 3], [3, 3], [4, 4], [2, 2, 2], [3, 2, 2], [3, 3, 3], [2, 3, 4], [2, 2, 2, 2], [4, 4, 4], [2, 4, 4, 2], [2, 1, 3], [1, 3], [2, 1], [1, 2, 2], [3, 2, 1], [2, 2, 2, 2, 2]]
        if int(np.prod(d)) <= NMAX]
STEPS = st.sampled_from([0.01, 0.05, 0.1, 0.2, 0.35, 0.5])


def markov_generator(rng, dims, local):
    N = int(np.prod(dims))
    if local:
        G = np.zeros((N, N))
        for i, n in enumerate(dims):
            g = rng.uniform(0, 1, (n, n)) * (rng.uniform(0, 1, (n, n)) < 0.7)
            np.fill_diagonal(g, 0)
            g = g - np.diag(g.sum(axis=0))
            G += dense.embed(g, i, dims)
    else:
        G = rng.uniform(0, 1, (N, N)) * (rng.uniform(0, 1, (N, N)) < 0.5)
        np.fill_diagonal(G, 0)
        G = G - np.diag(G.sum(axis=0))
    return G


def general_operator(rng, dims, cplx, terms=None):
    N = int(np.prod(dims))
    if terms is None:
        A = build.rand_array(rng, (N, N), cplx)
    else:
        A = np.zeros((N, N), dtype=complex if cplx else float)
        for _ in range(terms):
            k = np.ones((1, 1))
            for n in dims:
                k = np.kron(k, build.rand_array(rng, (n, n), cplx))
            A = A + k
    return A / max(np.linalg.norm(A, 2), 1e-12)       # spectral norm 1


def kron_sum_operator(rng, dims, terms=2):
    """sum of `terms` Kronecker products stored directly as cores of TT rank `terms`; the factors of the FIRST site are real-typed,
    all later ones complex: a complex operator whose first core is float64 (a real on-site term times complex couplings)"""
    d = len(dims)
    F = [[build.rand_array(rng, (n, n), i > 0) for i, n in enumerate(dims)] for _ in range(terms)]
    A = np.zeros((int(np.prod(dims)),) * 2, dtype=complex)
    for f in F:
        k = np.ones((1, 1))
        for m_ in f:
            k = np.kron(k, m_)
        A = A + k
    nrm = max(np.linalg.norm(A, 2), 1e-12)
    cores = []
    for i, n in enumerate(dims):
        rl, rr = (1 if i == 0 else terms), (1 if i == d - 1 else terms)
        core = np.zeros((rl, n, n, rr), dtype=complex if i > 0 else float)
        for t in range(terms):
            core[0 if i == 0 else t, :, :, 0 if i == d - 1 else t] = F[t][i]
        cores.append(core)
    cores[-1] = cores[-1] / nrm
    return A / nrm, cores


def normalise(x, p):
    if p == 1:
        return x / np.sum(x)
    if p == 2:
        return x / np.linalg.norm(x)
    return x


def vec(t):
    return dense.matrix(t.cores).reshape(-1)


def rnd_tt(rng, dims, ranks, cplx, nonneg=False):
    return TT([build.rand_array(rng, (ranks[i], dims[i], 1, ranks[i + 1]), cplx and not nonneg, 'nonneg' if nonneg else 'normal')
               for i in range(len(dims))])


@st.composite
def euler_case(draw):
    dims = draw(st.sampled_from(DIMS))
    scheme = draw(st.sampled_from(['explicit', 'implicit', 'trapezoidal']))
    normalize = draw(st.sampled_from([0, 1, 2]))
    c = {'dims': dims, 'scheme': scheme, 'normalize': normalize, 'seed': draw(gen.SEED),
         'steps': draw(st.lists(STEPS, min_size=1, max_size=4)), 'local': draw(st.booleans()),
         'cplx': draw(st.booleans()) if normalize != 1 else False,
         'tt_solver': draw(st.sampled_from(['als', 'als', 'mals'])) if len(dims) >= 2 else 'als',
         'micro_solver': draw(st.sampled_from(['solve', 'lu'])), 'repeats': draw(st.sampled_from([1, 1, 2])),
         'x_rank': draw(st.integers(1, 3)), 'x_scale_exp': draw(st.sampled_from([0, 0, 0, -9, 7])),
         # mixed dtypes among operator / state / guess of a complex problem; a max_rank equal to the largest representable rank
         'real_part': draw(st.sampled_from([None, None, 'op', 'state', 'guess'])), 'tight_max_rank': draw(st.sampled_from([False, False, True])),
         # a complex operator of TT rank 2 given by its cores, the first of which is real-typed
         'op_real_first_core': draw(st.sampled_from([False, False, True]))}
    if draw(st.sampled_from([False, False, False, False, True])):
        # MALS may start from a guess of rank one when the operator is generic (dense): the two-site solutions then have full rank,
        # the ranks grow to the maximal ones within two sweeps, and from then on every micro system is posed in complete frames, so
        # the solve is exact -- provided the repeat count reaches the inner solver.  Mode sizes whose maximal ranks (6 resp. 8)
        # cannot be reached from rank one within a single sweep.  (Not for structured operators or across size-1 modes: there
        # two-site sweeps without enrichment stagnate at low rank, 1e-2 on the unchanged tree.)
        c.update({'tt_solver': 'mals', 'scheme': draw(st.sampled_from(['implicit', 'trapezoidal'])), 'local': False, 'guess_rank1': True,
                  'repeats': 3, 'dims': draw(st.sampled_from([[3, 2, 2, 2, 3], [2, 3, 2, 2, 3], [2, 2, 2, 2, 2, 2], [2, 2, 2, 2, 2]]))})
        if c['normalize'] == 1:
            c['normalize'] = 0
    elif draw(st.sampled_from([False] * 9 + [True])):
        # a ramp of step sizes that starts with a tiny step (1e-7), from a rank-one initial value under an operator of low TT rank: after
        # the first step the state is numerically of rank 1 + r_A, later it needs the maximal ranks the guess provides
        c.update({'tt_solver': 'als', 'scheme': 'implicit', 'local': True, 'x_rank': 1, 'dims': [2, 2, 2, 2], 'x_scale_exp': 0,
                  'steps': [1e-7] + c['steps'][:3], 'tiny_first_step': True})
        if c['normalize'] == 1:
            c['normalize'] = 0
    return c


def op_real_first_core(c):
    return bool(c.get('op_real_first_core')) and c['cplx'] and c['local'] and len(c['dims']) >= 2 and c.get('real_part') != 'op' \
        and c['normalize'] != 1 and not c.get('tiny_first_step')


def setup_euler(c):
    rng = np.random.default_rng(c['seed'])
    dims = c['dims']
    d = len(dims)
    markov = c['normalize'] == 1
    if markov:
        A = markov_generator(rng, dims, c['local'])
        # scale so that the explicit scheme keeps states non-negative for every step size used
        A = A / max(np.max(np.abs(np.diag(A))), 1e-12) * (0.9 / max(c['steps']))
        A = A * rng.uniform(0.3, 1.0)
    else:
        A = general_operator(rng, dims, c['cplx'] and c.get('real_part') != 'op', terms=2 if c['local'] else None) * (0.5 / max(c['steps']))
    op = TT(dense.op_cores(A, dims))
    if op_real_first_core(c):
        A, oc = kron_sum_operator(rng, dims)
        A = A * (0.5 / max(c['steps']))
        oc[-1] = oc[-1] * (0.5 / max(c['steps']))
        op = TT(oc)
    mr = dense.max_ranks(dims)
    xr = [1] + [min(c['x_rank'], mr[i]) for i in range(1, d)] + [1]
    x0 = rnd_tt(rng, dims, xr, c['cplx'] and c.get('real_part') != 'state', nonneg=markov)
    if c.get('x_scale_exp', 0):
        # the schemes are linear in the state: an initial value of norm 1e-9 or 1e7 must work like one of norm 1
        x0.cores[0] = x0.cores[0] * 10.0 ** c['x_scale_exp']
    guess = rnd_tt(rng, dims, [1] * (d + 1) if c.get('guess_rank1') else mr, c['cplx'] and c.get('real_part') != 'guess', nonneg=markov)
    return rng, A, op, x0, guess


def body_euler(c):
    rng, A, op, x0, guess = setup_euler(c)
    dims, steps, p = c['dims'], c['steps'], c['normalize']
    N = A.shape[0]
    snaps = [(t, build.snapshot(t)) for t in (op, x0, guess)]
    I = np.eye(N)
    kw = dict(normalize=p, progress=False)
    if c.get('tight_max_rank'):
        # "with representable ranks": a cap equal to the largest rank any tensor of this shape can have is no effective truncation
        kw['max_rank'] = max(dense.max_ranks(dims))
    steps_arg = list(steps)

    def integrate():
        if c['scheme'] == 'explicit':
            return ode.explicit_euler(op, x0, steps_arg, **kw)
        if c['scheme'] == 'implicit':
            return ode.implicit_euler(op, x0, guess, steps_arg, repeats=c['repeats'], tt_solver=c['tt_solver'], micro_solver=c['micro_solver'], **kw)
        return ode.trapezoidal_rule(op, x0, guess, steps_arg, repeats=c['repeats'], tt_solver=c['tt_solver'], micro_solver=c['micro_solver'], **kw)

    sol = integrate()
    if c['seed'] % 3 == 0 and isinstance(sol, list) and len(sol) == len(steps) + 1:
        # once more with the very same argument objects (step-size list included): same trajectory
        again = integrate()
        require(isinstance(again, list) and len(again) == len(sol), 'repeatable', 'second identical call returns %d states' % len(again))
        close(vec(again[-1]), vec(sol[-1]), 1e-12, max(np.linalg.norm(vec(sol[-1])), 1e-300), 'repeatable', 'final state of a second identical call')
    require(isinstance(sol, list) and len(sol) == len(steps) + 1, 'length', 'trajectory has %d states for %d steps' % (len(sol), len(steps)))
    for t, s in snaps:
        build.require_unchanged(t, s, 'argument of the integrator')
    x = vec(x0)
    close(vec(sol[0]), x, 0.0, 1.0, 'initial_state', 'first state of the trajectory')
    for k, h in enumerate(steps):
        if c['scheme'] == 'explicit':
            x = (I + h * A) @ x
        elif c['scheme'] == 'implicit':
            x = np.linalg.solve(I - h * A, x)
        else:
            x = np.linalg.solve(I - 0.5 * h * A, (I + 0.5 * h * A) @ x)
        x = normalise(x, p)
        require_consistent(sol[k + 1], 'consistent')
        require(sol[k + 1].row_dims == dims, 'dims', 'state %d has rows %s' % (k + 1, sol[k + 1].row_dims))
        got = vec(sol[k + 1])
        close(got, x, 1e-8, max(np.linalg.norm(x), 1e-300), 'recurrence', '%s step %d (h=%g)' % (c['scheme'], k + 1, h))
        if p == 1:
            require(abs(np.sum(np.abs(got)) - 1) <= 1e-9, 'unit_norm', 'state %d has 1-norm %.12f' % (k + 1, np.sum(np.abs(got))))
        if p == 2:
            require(abs(np.linalg.norm(got) - 1) <= 1e-9, 'unit_norm', 'state %d has 2-norm %.12f' % (k + 1, np.linalg.norm(got)))
    lab = {c['scheme'], 'normalize%d' % p, c['tt_solver'], c['micro_solver']}
    if len(set(steps)) > 1:
        lab.add('varying_steps')
    if len(dims) == 1:
        lab.add('order1')
    if c['cplx']:
        lab.add('complex')
    if c.get('x_scale_exp', 0):
        lab.add('rescaled_state')
    if c['cplx'] and c.get('real_part'):
        lab.add('mixed_operand_dtypes')
    if op_real_first_core(c):
        lab.add('operator_first_core_real_later_complex')
    if c.get('tight_max_rank'):
        lab.add('max_rank_equals_largest_representable')
    if c.get('guess_rank1') and c['tt_solver'] == 'mals' and c['scheme'] != 'explicit':
        lab.add('mals_from_rank_one_guess')
    if len(dims) >= 5:
        lab.add('order>=5')
    if c.get('tiny_first_step'):
        lab.add('step_ramp_from_1e-7')
    return lab


# ---------------------------------------------------------------------------------------------------------
# higher-order differencing
# ---------------------------------------------------------------------------------------------------------

@st.composite
def hod_case(draw):
    dims = draw(st.sampled_from([d for d in DIMS if int(np.prod(d)) <= 36]))
    normalize = draw(st.sampled_from([0, 1, 2]))
    return {'dims': dims, 'order': draw(st.sampled_from([2, 3, 4, 6])), 'normalize': normalize, 'seed': draw(gen.SEED),
            'h': draw(st.sampled_from([0.05, 0.1, 0.2, 0.4])), 'steps': draw(st.integers(1, 4)), 'previous': draw(st.booleans()),
            'terms': draw(st.integers(1, 3)), 'cplx': draw(st.booleans()) if normalize != 1 else False, 'x_rank': draw(st.integers(1, 2)),
            'x_scale_exp': draw(st.sampled_from([0, 0, 0, -9, 7])), 'tight_max_rank': draw(st.sampled_from([False, False, True])),
            # the optional argument op_hod: the caller hands over the very operator the routine would build itself
            'supply_op_hod': draw(st.sampled_from([False, False, True]))}


def body_hod(c):
    rng = np.random.default_rng(c['seed'])
    dims, h, p = c['dims'], c['h'], c['normalize']
    d = len(dims)
    N = int(np.prod(dims))
    if p == 1:
        # sum of local generators: TT-rank <= number of modes; keep it <= 3
        assume(d <= 3)
        A = markov_generator(rng, dims, True)
        A = A / max(np.max(np.abs(np.diag(A))), 1e-12) * 0.5
    else:
        A = general_operator(rng, dims, c['cplx'], terms=c['terms'])
    # (an identically vanishing operator -- the only local generator drawn sits on a size-1 site -- is outside the domain: hod rounds
    # its operator with a relative threshold, which is undefined for the zero tensor, see DESIGN 2.3)
    assume(float(np.linalg.norm(A)) > 0)
    op = TT(dense.op_cores(A, dims))
    assume(max(op.ranks) <= 3)
    mr = dense.max_ranks(dims)
    xr = [1] + [min(c['x_rank'], mr[i]) for i in range(1, d)] + [1]
    x0 = rnd_tt(rng, dims, xr, c['cplx'], nonneg=(p == 1))
    prev = rnd_tt(rng, dims, xr, c['cplx'], nonneg=(p == 1)) if c['previous'] else None
    if c.get('x_scale_exp', 0) and p != 1:
        # (not with the 1-norm normalisation: the scheme adds the normalised previous state to M x0 whose entries sum to zero
        # for a Markov generator, so dividing by the sum of an un-normalised x0 of size 1e7 is ill-conditioned in itself)
        x0.cores[0] = x0.cores[0] * 10.0 ** c['x_scale_exp']
        if prev is not None:
            prev.cores[0] = prev.cores[0] * 10.0 ** c['x_scale_exp']
    snaps = [(t, build.snapshot(t)) for t in (op, x0)]
    order = c['order'] + (c['order'] % 2)
    kw = dict(order=c['order'], normalize=p, progress=False)
    if c.get('tight_max_rank'):
        kw['max_rank'] = max(mr)         # the largest representable rank: no effective truncation
    if prev is not None:
        prev_dense = vec(prev)
        kw['previous_value'] = prev
    if c.get('supply_op_hod'):
        Mh = np.zeros((N, N), dtype=A.dtype)
        Ak_ = A.copy()
        for j in range(1, order // 2 + 1):
            Mh = Mh + 2.0 / math.factorial(2 * j - 1) * h ** (2 * j - 1) * Ak_
            Ak_ = Ak_ @ A @ A
        kw['op_hod'] = TT(dense.op_cores(Mh, dims))
    sol = ode.hod(op, x0, h, c['steps'], **kw)
    require(isinstance(sol, list) and len(sol) == c['steps'] + 1, 'length', 'trajectory has %d states for %d steps' % (len(sol), c['steps']))
    for t, s in snaps:
        build.require_unchanged(t, s, 'argument of hod')

    def hod_op(step):
        M = np.zeros((N, N), dtype=A.dtype)
        Ak = A.copy()
        for j in range(1, order // 2 + 1):
            M = M + 2.0 / math.factorial(2 * j - 1) * step ** (2 * j - 1) * Ak
            Ak = Ak @ A @ A
        return M

    x = vec(x0)
    I = np.eye(N)
    if prev is None:
        half = (I - 0.5 * h * A) @ x                      # explicit Euler half step backwards
        xprev = x - hod_op(h / 2) @ half                  # HOD half step backwards
    else:
        xprev = prev_dense
    xprev = normalise(xprev, p)
    M = hod_op(h)
    traj = [x]
    for k in range(c['steps']):
        base = xprev if k == 0 else traj[k - 1]
        nxt = normalise(base + M @ traj[k], p)
        traj.append(nxt)
        require_consistent(sol[k + 1], 'consistent')
        got = vec(sol[k + 1])
        close(got, nxt, 1e-8, max(np.linalg.norm(nxt), 1e-300), 'hod_recurrence', 'HOD(order %d) step %d' % (c['order'], k + 1))
        if p == 2:
            require(abs(np.linalg.norm(got) - 1) <= 1e-9, 'unit_norm', '2-norm %.12f' % np.linalg.norm(got))
        if p == 1:
            require(abs(np.sum(got) - 1) <= 1e-9, 'unit_norm', '1-norm %.12f' % np.sum(got))
    lab = {'hod', 'order%d' % c['order'], 'normalize%d' % p, 'previous' if c['previous'] else 'self_start'}
    if c.get('supply_op_hod'):
        lab.add('op_hod_supplied')
    if c['cplx']:
        lab.add('complex')
    if d == 1:
        lab.add('order1')
    if c.get('x_scale_exp', 0) and p != 1:
        lab.add('rescaled_state')
    if c.get('tight_max_rank'):
        lab.add('max_rank_equals_largest_representable')
    return lab


# ---------------------------------------------------------------------------------------------------------
# error estimators on arbitrary TT lists
# ---------------------------------------------------------------------------------------------------------

@st.composite
def errors_case(draw):
    dims = draw(st.sampled_from(DIMS))
    return {'dims': dims, 'seed': draw(gen.SEED), 'cplx': draw(st.booleans()), 'n': draw(st.integers(1, 4)),
            'steps': draw(st.lists(STEPS, min_size=4, max_size=4)), 'which': draw(st.sampled_from(['explicit', 'implicit', 'trapezoidal'])),
            'rank': draw(st.integers(1, 3)),
            # a trajectory that satisfies its recurrence up to rounding (what the integrators produce): the defect is then ~1e-16
            'consistent': draw(st.sampled_from([False, False, True]))}


def body_errors(c):
    rng = np.random.default_rng(c['seed'])
    dims = c['dims']
    d = len(dims)
    A = general_operator(rng, dims, c['cplx'], terms=2) * rng.uniform(0.2, 3.0)
    op = TT(dense.op_cores(A, dims))
    mr = dense.max_ranks(dims)
    r = [1] + [min(c['rank'], mr[i]) for i in range(1, d)] + [1]
    xs = [rnd_tt(rng, dims, r, c['cplx']) for _ in range(c['n'] + 1)]
    steps = c['steps'][:c['n']]
    if c.get('consistent'):
        In = np.eye(A.shape[0])
        for i, h in enumerate(steps):
            a = vec(xs[i])
            if c['which'] == 'explicit':
                nxt = (In + h * A) @ a
            elif c['which'] == 'implicit':
                nxt = np.linalg.solve(In - h * A, a)
            else:
                nxt = np.linalg.solve(In - 0.5 * h * A, (In + 0.5 * h * A) @ a)
            xs[i + 1] = TT(dense.vec_cores(nxt, dims))
    snaps = [(t, build.snapshot(t)) for t in [op] + xs]
    f = {'explicit': ode.errors_expl_euler, 'implicit': ode.errors_impl_euler, 'trapezoidal': ode.errors_trapezoidal}[c['which']]
    got = f(op, xs, list(steps))
    require(len(got) == c['n'], 'errors_length', '%d errors for %d steps' % (len(got), c['n']))
    for t, s in snaps:
        build.require_unchanged(t, s, 'argument of the error estimator')
    I = np.eye(A.shape[0])
    for i, h in enumerate(steps):
        a, b = vec(xs[i]), vec(xs[i + 1])
        if c['which'] == 'explicit':
            want = np.linalg.norm(b - (I + h * A) @ a) / np.linalg.norm(a)
        elif c['which'] == 'implicit':
            want = np.linalg.norm((I - h * A) @ b - a) / np.linalg.norm(a)
        else:
            rhs = (I + 0.5 * h * A) @ a
            want = np.linalg.norm((I - 0.5 * h * A) @ b - rhs) / np.linalg.norm(rhs)
        close(np.asarray(got[i], dtype=float), want, 1e-9, max(want, 1.0), 'error_value', '%s defect of step %d' % (c['which'], i + 1))
    lab = {'errors_' + c['which']}
    if c.get('consistent'):
        lab.add('trajectory_satisfies_its_recurrence')
    if c['cplx']:
        lab.add('complex')
    if len(set(steps)) > 1:
        lab.add('varying_steps')
    if d == 1:
        lab.add('order1')
    return lab


# ---------------------------------------------------------------------------------------------------------
# adaptive step size
# ---------------------------------------------------------------------------------------------------------

@st.composite
def adaptive_case(draw):
    dims = draw(st.sampled_from([d for d in DIMS if int(np.prod(d)) <= 27]))
    return {'dims': dims, 'seed': draw(gen.SEED), 'local': draw(st.booleans()), 'time_end': draw(st.sampled_from([0.05, 0.3, 1.0])),
            'first': draw(st.sampled_from([1e-3, 1e-2, 0.1])), 'second': draw(st.sampled_from(['two_step_Euler', 'trapezoidal_rule'])),
            'solver': draw(st.sampled_from(['solve', 'lu'])), 'normalize': draw(st.sampled_from([1, 1, 2]))}


def body_adaptive(c):
    rng = np.random.default_rng(c['seed'])
    dims = c['dims']
    d = len(dims)
    A = markov_generator(rng, dims, c['local'])
    A = A / max(np.max(np.abs(np.diag(A))), 1e-12) * rng.uniform(0.5, 3.0)
    op = TT(dense.op_cores(A, dims))
    mr = dense.max_ranks(dims)
    x0c = [build.rand_array(rng, (1, n, 1, 1), False, 'nonneg') + 0.1 for n in dims]
    x0 = TT(x0c)
    x0 = (1.0 / float(np.sum(dense.contract(x0.cores)))) * x0
    guess = rnd_tt(rng, dims, mr, False, nonneg=True)
    snaps = [(t, build.snapshot(t)) for t in (op, x0, guess)]
    sol, times = ode.adaptive_step_size(op, x0, guess, c['time_end'], step_size_first=c['first'], solver=c['solver'],
                                        second_method=c['second'], normalize=c['normalize'], progress=False)
    for t, s in snaps:
        build.require_unchanged(t, s, 'argument of adaptive_step_size', strict=True)
    require(len(sol) == len(times), 'adaptive_lengths', '%d states but %d time points' % (len(sol), len(times)))
    require(times[0] == 0, 'adaptive_times', 'first time point %r' % (times[0],))
    for a, b in zip(times[:-1], times[1:]):
        require(b > a, 'adaptive_times', 'accepted time points not strictly increasing: %r -> %r' % (a, b))
    require(times[-1] <= c['time_end'] * (1 + 1e-12), 'adaptive_times', 'last time point %r beyond the end time %r' % (times[-1], c['time_end']))
    for s in sol:
        require_consistent(s, 'consistent')
        require(s.row_dims == dims, 'dims', 'rows %s' % s.row_dims)
    for k in range(1, len(sol)):
        v = vec(sol[k])
        nrm = np.sum(np.abs(v)) if c['normalize'] == 1 else np.linalg.norm(v)
        require(abs(nrm - 1) <= 1e-8, 'unit_norm', 'accepted state %d has norm %.12f' % (k, nrm))
    lab = {'adaptive', c['second'], c['solver']}
    if len(times) >= 3:
        lab.add('several_accepted_steps')
    if times[-1] >= c['time_end'] * (1 - 1e-12):
        lab.add('reached_end')
    return lab


def nt(labels):
    return bool({'varying_steps', 'normalize1', 'normalize2', 'mals', 'lu', 'order4', 'order6', 'order1', 'complex', 'several_accepted_steps'} & set(labels))


SUBCHECKS = [
    Sub('euler_family', euler_case(), body_euler, nt, quick=250, thorough=2500, shards_quick=6, budget_quick=120,
        classes=['explicit', 'implicit', 'trapezoidal', 'normalize0', 'normalize1', 'normalize2', 'mals', 'lu', 'varying_steps', 'order1', 'complex']),
    Sub('hod', hod_case(), body_hod, nt, quick=120, thorough=1200, shards_quick=4, budget_quick=120,
        classes=['order2', 'order3', 'order4', 'order6', 'previous', 'self_start', 'normalize1', 'normalize2', 'complex']),
    Sub('errors', errors_case(), body_errors, nt, quick=300, thorough=3000, shards_quick=2,
        classes=['errors_explicit', 'errors_implicit', 'errors_trapezoidal', 'complex', 'varying_steps']),
    Sub('adaptive', adaptive_case(), body_adaptive, nt, quick=40, thorough=400, shards_quick=4, budget_quick=120,
        classes=['two_step_Euler', 'trapezoidal_rule', 'several_accepted_steps', 'reached_end']),
]
