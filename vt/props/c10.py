"""C10 -- splitting integrators equal the composed local propagators, at the right order."""
import numpy as np
import scipy.linalg as sla
from hypothesis import strategies as st, assume

import scikit_tt.solvers.ode as ode
from scikit_tt.tensor_train import TT
from vt import dense, gen, build
from vt.common import Sub, Violation, require, target
from vt.build import close, require_consistent

PROPERTY_ID = 'C10'

RULE = ('Hypothesis draws the chain length (2..6), local dimensions (2..3; per-site dims in the inhomogeneous case), the '
        'interaction rank (1..2), real/complex components S, L, M given either as homogeneous arrays or as per-site lists (2-D '
        'and 3-D coupling arrays), a component class (generic, skew-Hermitian, stochastic generator pieces for normalize = 1), '
        'the step size (||hA|| <= 0.4), 1..3 steps, an initial TT of rank <= 2 and a rank cap large enough that nothing is cut. '
        'Oracles: (1) one step equals the dense product of even/odd-bond matrix exponentials assembled by the harness from S, L, '
        'M with the scheme\'s published coefficients (Lie, Strang, Yoshida, 17-stage Kahan-Li); (2) independently, the measured '
        'convergence order against scipy.linalg.expm(T A) is at least 0.5 / 1.5 / 3.0 / 4.7; (3) skew-Hermitian generators '
        'preserve the 2-norm; (4) normalisation returns unit-norm states -- also under an active rank cap (separate sub-check, no value '
        'comparison there); (5) list length; component arguments keep their values (real, complex or integer-typed). '
        'Non-trivial: inhomogeneous lists, complex data, even chain length, or interaction rank 2.')
RULE += (' ' + "Added classes: state dtype independent of the components' dtype, site-dependent lists with a uniform bulk and one defect site, weakly coupled bonds, per-bond interaction ranks, in-place update of the component arrays.")

RULE += (' Added class: threshold 0 / 1e-14 given explicitly (no truncation written out).')

ASSUMPTIONS = [
    'oracle: scipy.linalg.expm of dense even/odd generators built by the harness; published Yoshida / Kahan-Li coefficients',
    'no truncation is active: max_rank = 200, threshold at its default 1e-12, or 0 / 1e-14 given explicitly',
    'order measurement: error ratio between n and 2n steps; cases whose finer error is below 1e-11 (rounding level) are not judged',
    'list-valued L/M may be reshaped in place from 2-D to 3-D by the routine; only their values are required to stay unchanged',
]

KL = [0.13020248308889008087881763, 0.56116298177510838456196441, -0.38947496264484728640807860, 0.15884190655515560089621075,
      -0.39590389413323757733623154, 0.18453964097831570709183254, 0.25837438768632204729397911, 0.29501172360931029887096624,
      -0.60550853383003451169892108]


@st.composite
def split_case(draw):
    d = draw(st.integers(2, 6))
    hom = draw(st.booleans())
    nloc = draw(st.sampled_from([2, 2, 3]))
    dims = [nloc] * d if hom else [draw(st.sampled_from([2, 2, 3])) for _ in range(d)]
    if int(np.prod(dims)) > 300:
        dims = [2] * d
    if not hom and d >= 3 and draw(st.sampled_from([False, False, False, True])):
        dims[draw(st.sampled_from([0, d - 1]))] = 1                 # a site of local dimension 1 at an end of the chain
    klass = draw(st.sampled_from(['generic', 'generic', 'skew', 'stochastic']))
    # site-dependent LISTS whose entries are nevertheless the same arrays on every site but one (a uniform bulk with a defect)
    uniform_bulk = (not hom) and d >= 3 and draw(st.sampled_from([False, False, True]))
    if uniform_bulk:
        dims = [nloc] * d if nloc ** d <= 300 else [2] * d
    c = {'uniform_bulk': uniform_bulk, 'defect': draw(st.integers(0, d - 1))}
    c.update({'dims': dims, 'hom': hom, 'klass': klass, 'cplx': draw(st.booleans()) if klass != 'stochastic' else False,
            'rank': draw(st.sampled_from([1, 1, 2])), 'two_d': draw(st.booleans()), 'seed': draw(gen.SEED),
            'hnorm': draw(st.sampled_from([0.05, 0.1, 0.2, 0.4])), 'steps': draw(st.integers(1, 3)),
            'scheme': draw(st.sampled_from(['lie', 'strang', 'yoshida', 'kahan_li'])),
            'normalize': draw(st.sampled_from([0, 0, 2])) if klass != 'stochastic' else draw(st.sampled_from([1, 1, 0])),
            'int_components': draw(st.sampled_from([False, False, False, True])), 'x_scale_exp': draw(st.sampled_from([0, 0, 0, -9, 7])),
            # site-dependent components may carry a different number of interaction terms on every bond
            'bond_ranks': None if hom or draw(st.booleans()) else [draw(st.sampled_from([1, 2, 3])) for _ in range(d - 1)],
            'update_in_place': draw(st.sampled_from([False, False, True])),
            'weak_bond': None if hom else draw(st.sampled_from([None, None, 0, 1, 2, 3])),
            # the state's dtype need not be that of the components: a complex state under real components and the other way round
            'state_cplx': draw(st.sampled_from([None, None, True, False])) if klass != 'stochastic' else None,
            'threshold': draw(st.sampled_from([None, None, None, 0, 0.0, 1e-14]))})
    if uniform_bulk:
        c['bond_ranks'] = None
        c['weak_bond'] = None
    return c


def state_cplx(c):
    return c['cplx'] if c.get('state_cplx') is None else c['state_cplx']


def components(c, rng):
    dims, cplx, rk = c['dims'], c['cplx'], c['rank']
    d = len(dims)

    intc = c.get('int_components') and c['klass'] == 'generic' and not cplx

    def rm(n):
        if intc:
            return rng.integers(-1, 2, (n, n)).astype(np.int64)     # integer-typed components (ladder operators, ...)
        return build.rand_array(rng, (n, n), cplx)

    def herm(n):
        a = rm(n)
        return a + a.conj().T

    def generator(n):
        g = rng.uniform(0, 1, (n, n))
        np.fill_diagonal(g, 0)
        return g - np.diag(g.sum(axis=0))

    def site(n, rl=None, rm_=None):
        # rl terms towards the right neighbour (the L of this site), rm_ terms towards the left neighbour (the M of this site)
        rl = rk if rl is None else rl
        rm_ = rk if rm_ is None else rm_
        if c['klass'] == 'skew':
            a = rm(n)
            return a - a.conj().T, [1j * herm(n) for _ in range(rl)], [herm(n) for _ in range(rm_)]
        if c['klass'] == 'stochastic':
            Ls = [generator(n) if k % 2 == 0 else np.diag(rng.uniform(0, 1, n)) for k in range(rl)]
            Ms = [np.diag(rng.uniform(0, 1, n)) if k % 2 == 0 else generator(n) for k in range(rm_)]
            return generator(n), Ls, Ms
        return rm(n), [rm(n) for _ in range(rl)], [rm(n) for _ in range(rm_)]

    if c['hom']:
        S, Ls, Ms = site(dims[0])
        Sl, Ll, Ml = [S] * d, [Ls] * d, [Ms] * d
    else:
        br = bond_ranks(c)
        if c.get('uniform_bulk'):
            bulk = site(dims[0])
            parts = [bulk] * d
            parts[c['defect'] % d] = site(dims[0])
        else:
            parts = [site(dims[i], br[i] if i < d - 1 else br[-1], br[i - 1] if i > 0 else br[0]) for i in range(d)]
        Sl, Ll, Ml = [p[0] for p in parts], [p[1] for p in parts], [p[2] for p in parts]
        if c.get('weak_bond') is not None and c['klass'] != 'stochastic' and not intc:
            # one bond is almost decoupled: no single-site term on its left site and a diagonal (ZZ-type) interaction 1e-4 times
            # weaker than the rest -- its propagator differs from the identity by 1e-5 only, and still has to be applied
            b = c['weak_bond'] % (d - 1)
            Sl[b] = np.zeros_like(Sl[b])
            unit = 1j if c['klass'] == 'skew' else 1.0
            Ll[b] = [(unit * 1e-4 * np.diag(rng.uniform(0.5, 1.5, dims[b]))).astype(Ll[b][0].dtype if c['klass'] != 'skew' else complex) for _ in Ll[b]]
            Ml[b + 1] = [np.diag(rng.uniform(0.5, 1.5, dims[b + 1])).astype(Ml[b + 1][0].dtype) for _ in Ml[b + 1]]
    return Sl, Ll, Ml


def bond_ranks(c):
    d = len(c['dims'])
    return list(c['bond_ranks']) if c.get('bond_ranks') else [c['rank']] * (d - 1)


def assemble(c, Sl, Ll, Ml):
    """dense even / odd generators: bond i carries S_i (x) I + sum_k L_i^k (x) M_{i+1}^k, the last site carries S_d alone"""
    dims = c['dims']
    d = len(dims)
    N = int(np.prod(dims))
    Ae = np.zeros((N, N), dtype=complex)
    Ao = np.zeros((N, N), dtype=complex)
    for i in range(d - 1):
        K = np.kron(Sl[i], np.eye(dims[i + 1]))
        for k in range(bond_ranks(c)[i]):
            K = K + np.kron(Ll[i][k], Ml[i + 1][k])
        tgt = Ae if i % 2 == 0 else Ao
        tgt += dense.embed(K, i, dims)
    tgt = Ae if (d - 1) % 2 == 0 else Ao
    tgt += dense.embed(Sl[-1], d - 1, dims)
    return Ae, Ao


def lib_args(c, Sl, Ll, Ml, scale):
    """arguments in the form the library expects (homogeneous arrays or per-site lists); everything multiplied by `scale`"""
    dims, rk = c['dims'], c['rank']
    d = len(dims)

    uniform = not c.get('bond_ranks')

    def Larr(ls):
        if rk == 1 and c['two_d'] and uniform:
            return np.array(ls[0]) * scale
        return np.stack(ls, axis=-1) * scale

    def Marr(ms):
        if rk == 1 and c['two_d'] and uniform:
            return np.array(ms[0])
        return np.stack(ms)

    if c['hom']:
        return (Sl[0] * scale, Larr(Ll[0]), np.eye(dims[0]), Marr(Ml[0]))
    return ([s * scale for s in Sl], [Larr(l) for l in Ll], [np.eye(n) for n in dims], [Marr(m) for m in Ml])


def call(scheme, args, x0, h, n, normalize, threshold=None):
    f = {'lie': ode.lie_splitting, 'strang': ode.strang_splitting, 'yoshida': ode.yoshida_splitting, 'kahan_li': ode.kahan_li_splitting}[scheme]
    a = tuple([x.copy() for x in arg] if isinstance(arg, list) else arg.copy() for arg in args)
    kw = {} if threshold is None else {'threshold': threshold}       # (0: "no truncation" written out; 1e-14: below the default)
    return f(a[0], a[1], a[2], a[3], x0, h, n, max_rank=200, normalize=normalize, **kw), a


def one_step(scheme, Ae, Ao, h):
    E = lambda M, t: sla.expm(t * h * M)
    strang = lambda t: E(Ae, t / 2) @ E(Ao, t) @ E(Ae, t / 2)
    if scheme == 'lie':
        return E(Ao, 1) @ E(Ae, 1)
    if scheme == 'strang':
        return strang(1)
    if scheme == 'yoshida':
        g1 = 1 / (2 - 2 ** (1 / 3))
        g2 = -2 ** (1 / 3) / (2 - 2 ** (1 / 3))
        return strang(g1) @ strang(g2) @ strang(g1)
    seq = KL + KL[-2::-1]
    P = np.eye(Ae.shape[0], dtype=complex)
    for g in seq:
        P = strang(g) @ P
    return P


def body_structure(c):
    rng = np.random.default_rng(c['seed'])
    dims = c['dims']
    d = len(dims)
    Sl, Ll, Ml = components(c, rng)
    Ae, Ao = assemble(c, Sl, Ll, Ml)
    A = Ae + Ao
    nrm = max(np.linalg.norm(A, 2), 1e-12)
    intc = c.get('int_components') and c['klass'] == 'generic' and not c['cplx']
    if intc:
        h = c['hnorm'] / nrm            # integer-typed components are passed as they are; the step size carries the scale
        scale = 1
    else:
        h = 1.0
        scale = c['hnorm'] / nrm        # fold the scaling into the components: ||h A|| = hnorm with h = 1
    Ae, Ao = Ae * scale, Ao * scale
    args = lib_args(c, Sl, Ll, Ml, scale)
    r = [1] + [2] * (d - 1) + [1]
    pos = c['klass'] == 'stochastic'
    x0 = TT([build.rand_array(rng, (r[i], dims[i], 1, r[i + 1]), state_cplx(c), 'nonneg' if pos else 'normal') for i in range(d)])
    if not pos:
        x0 = (1.0 / np.linalg.norm(dense.contract(x0.cores))) * x0
    if c.get('x_scale_exp', 0):
        # the schemes are linear in the state (thresholds are relative): a state of norm 1e-9 or 1e7 must work like one of norm 1
        x0.cores[0] = x0.cores[0] * 10.0 ** c['x_scale_exp']
    snap = build.snapshot(x0)
    p = c['normalize']
    sol, passed = call(c['scheme'], args, x0, h, c['steps'], p, c.get('threshold'))
    require(isinstance(sol, list) and len(sol) == c['steps'] + 1, 'length', '%d states for %d steps' % (len(sol), c['steps']))
    build.require_unchanged(x0, snap, 'initial value')
    # component arguments keep their values (lists may have been reshaped 2-D -> 3-D)
    for got, orig in zip(passed, args):
        gl = got if isinstance(got, list) else [got]
        ol = orig if isinstance(orig, list) else [orig]
        for a, b in zip(gl, ol):
            require(np.array_equal(np.asarray(a).reshape(-1), np.asarray(b).reshape(-1)), 'components_unchanged', 'a component array changed its values')
    P = one_step(c['scheme'], Ae, Ao, h)
    v = dense.matrix(x0.cores).reshape(-1).astype(complex)
    n0 = np.linalg.norm(v)
    for k in range(1, c['steps'] + 1):
        v = P @ v
        if p == 1:
            v = v / np.sum(v)
        elif p == 2:
            v = v / np.linalg.norm(v)
        require_consistent(sol[k], 'consistent')
        require(sol[k].row_dims == dims, 'dims', 'rows %s' % sol[k].row_dims)
        got = dense.matrix(sol[k].cores).reshape(-1)
        close(got, v, 1e-8, max(np.linalg.norm(v), 1e-300), 'propagator', '%s step %d vs product of local exponentials' % (c['scheme'], k))
        if c['klass'] == 'skew' and p == 0:
            require(abs(np.linalg.norm(got) - n0) <= 1e-9 * n0, 'norm_preserved', 'skew-Hermitian generator: norm %.12f -> %.12f' % (n0, np.linalg.norm(got)))
        if p == 2:
            require(abs(np.linalg.norm(got) - 1) <= 1e-9, 'unit_norm', '2-norm %.12f' % np.linalg.norm(got))
        if p == 1:
            require(abs(np.sum(got) - 1) <= 1e-9, 'unit_norm', '1-norm %.12f' % abs(np.sum(got)))
    if c.get('update_in_place') and not intc and p == 0:
        # the caller re-uses the component arrays for the next parameter set (a field sweep): the SAME array objects, updated in
        # place, describe a different operator now, and one step must be the propagator of that operator
        al, be = 0.6, -1.4
        for arr in (passed[0] if isinstance(passed[0], list) else [passed[0]]):
            arr *= al
        for arr in (passed[1] if isinstance(passed[1], list) else [passed[1]]):
            arr *= be
        f = {'lie': ode.lie_splitting, 'strang': ode.strang_splitting, 'yoshida': ode.yoshida_splitting, 'kahan_li': ode.kahan_li_splitting}[c['scheme']]
        sol2 = f(passed[0], passed[1], passed[2], passed[3], x0, h, 1, max_rank=200, normalize=0)
        Sl2 = [al * S_ for S_ in Sl]
        Ll2 = [[be * L_ for L_ in Ls_] for Ls_ in Ll]
        Ae2, Ao2 = assemble(c, Sl2, Ll2, Ml)
        P2 = one_step(c['scheme'], Ae2 * scale, Ao2 * scale, h)
        v2 = P2 @ dense.matrix(x0.cores).reshape(-1).astype(complex)
        got2 = dense.matrix(sol2[1].cores).reshape(-1)
        close(got2, v2, 1e-8, max(np.linalg.norm(v2), 1e-300), 'propagator', '%s step after the component arrays were updated in place' % c['scheme'])
    lab = {c['scheme'], c['klass'], 'normalize%d' % p, 'hom' if c['hom'] else 'inhom', 'rank%d' % c['rank']}
    if c.get('update_in_place') and not intc and p == 0:
        lab.add('components_updated_in_place')
    if c.get('bond_ranks') and len(set(c['bond_ranks'])) > 1:
        lab.add('bond_dependent_interaction_rank')
    if c.get('weak_bond') is not None and not c['hom'] and c['klass'] != 'stochastic' and not intc:
        lab.add('weak_bond')
    if c['cplx']:
        lab.add('complex')
    if state_cplx(c) != c['cplx']:
        lab.add('state_dtype_differs_from_components')
    if c.get('uniform_bulk'):
        lab.add('uniform_bulk_with_defect')
    if 1 in c['dims']:
        lab.add('site_of_dimension_1')
    if d % 2 == 0:
        lab.add('even_length')
    if c['two_d'] and c['rank'] == 1:
        lab.add('2d_coupling')
    if intc:
        lab.add('int_components')
    if c.get('x_scale_exp', 0):
        lab.add('rescaled_state')
    if c.get('threshold') is not None:
        lab.add('threshold_zero' if c['threshold'] == 0 else 'threshold_1e-14')
    return lab


@st.composite
def trunc_case(draw):
    c = draw(split_case())
    c['max_rank'] = draw(st.sampled_from([1, 1, 2]))
    c['normalize'] = draw(st.sampled_from([2, 2, 1])) if c['klass'] == 'stochastic' else 2
    c['steps'] = draw(st.integers(1, 3))
    c['hnorm'] = draw(st.sampled_from([0.2, 0.4, 1.0]))
    return c


def body_trunc(c):
    """with an active rank cap the values are not comparable, but normalisation must still return unit-norm states"""
    rng = np.random.default_rng(c['seed'])
    dims = c['dims']
    d = len(dims)
    Sl, Ll, Ml = components(c, rng)
    Ae, Ao = assemble(c, Sl, Ll, Ml)
    nrm = max(np.linalg.norm(Ae + Ao, 2), 1e-12)
    args = lib_args(c, Sl, Ll, Ml, c['hnorm'] / nrm)
    r = [1] + [2] * (d - 1) + [1]
    pos = c['klass'] == 'stochastic'
    x0 = TT([build.rand_array(rng, (r[i], dims[i], 1, r[i + 1]), state_cplx(c), 'nonneg' if pos else 'normal') for i in range(d)])
    f = {'lie': ode.lie_splitting, 'strang': ode.strang_splitting, 'yoshida': ode.yoshida_splitting, 'kahan_li': ode.kahan_li_splitting}[c['scheme']]
    a = tuple([x.copy() for x in arg] if isinstance(arg, list) else arg.copy() for arg in args)
    p = c['normalize']
    sol = f(a[0], a[1], a[2], a[3], x0, 1.0, c['steps'], max_rank=c['max_rank'], normalize=p)
    require(isinstance(sol, list) and len(sol) == c['steps'] + 1, 'length', '%d states for %d steps' % (len(sol), c['steps']))
    lab = {c['scheme'], 'truncating', 'normalize%d' % p, 'hom' if c['hom'] else 'inhom'}
    for k in range(1, c['steps'] + 1):
        require_consistent(sol[k], 'consistent')
        require(max(sol[k].ranks) <= c['max_rank'], 'rank_cap', 'ranks %s exceed max_rank %d' % (sol[k].ranks, c['max_rank']))
        v = dense.matrix(sol[k].cores).reshape(-1)
        nv = np.linalg.norm(v) if p == 2 else abs(np.sum(v))
        require(abs(nv - 1) <= 1e-9, 'unit_norm', '%s with max_rank=%d, normalize=%d: state %d has norm %.12f' % (c['scheme'], c['max_rank'], p, k, nv))
    if c['cplx']:
        lab.add('complex')
    return lab


@st.composite
def order_case(draw):
    c = draw(split_case())
    c['klass'] = draw(st.sampled_from(['generic', 'skew']))
    c['cplx'] = draw(st.booleans())
    c['normalize'] = 0
    if int(np.prod(c['dims'])) > 64:
        c['dims'] = [2] * len(c['dims'])
    return c


def body_order(c):
    rng = np.random.default_rng(c['seed'])
    dims = c['dims']
    d = len(dims)
    Sl, Ll, Ml = components(c, rng)
    Ae, Ao = assemble(c, Sl, Ll, Ml)
    A = Ae + Ao
    nrm = max(np.linalg.norm(A, 2), 1e-12)
    args = lib_args(c, Sl, Ll, Ml, 1.0)
    r = [1] + [2] * (d - 1) + [1]
    x0 = TT([build.rand_array(rng, (r[i], dims[i], 1, r[i + 1]), state_cplx(c)) for i in range(d)])
    x0 = (1.0 / np.linalg.norm(dense.contract(x0.cores))) * x0
    v0 = dense.matrix(x0.cores).reshape(-1).astype(complex)
    T = 2.0 / nrm
    exact = sla.expm(T * A) @ v0
    scheme = c['scheme']
    ns = [1, 2] if scheme == 'kahan_li' else [4, 8]
    errs = []
    for n in ns:
        sol, _ = call(scheme, args, x0, T / n, n, 0)
        errs.append(float(np.linalg.norm(dense.matrix(sol[-1].cores).reshape(-1) - exact)))
    lab = {scheme, 'hom' if c['hom'] else 'inhom', 'rank%d' % c['rank']}
    if c['cplx']:
        lab.add('complex')
    if d % 2 == 0:
        lab.add('even_length')
    need = {'lie': 0.5, 'strang': 1.5, 'yoshida': 3.0, 'kahan_li': 4.7}[scheme]
    if errs[1] < 1e-11:
        lab.add('below_rounding')
        require(errs[0] < 1e-6, 'order', 'finer run at rounding level but coarser error is %.3e' % errs[0])
        return lab
    order = np.log2(errs[0] / errs[1])
    lab.add('order_measured')
    target(need - order, 'order deficit')
    require(order >= need, 'order', '%s: errors %.3e -> %.3e when halving the step, measured order %.2f < %.1f' % (scheme, errs[0], errs[1], order, need))
    return lab


def nt(labels):
    return bool({'inhom', 'complex', 'even_length', 'rank2'} & set(labels))


SUBCHECKS = [
    Sub('structure', split_case(), body_structure, nt, quick=150, thorough=1500, shards_quick=8, budget_quick=120,
        classes=['lie', 'strang', 'yoshida', 'kahan_li', 'generic', 'skew', 'stochastic', 'hom', 'inhom', 'complex', 'even_length', 'rank2',
                 '2d_coupling', 'normalize1', 'normalize2', 'int_components']),
    Sub('normalised_truncated', trunc_case(), body_trunc, lambda l: True, quick=60, thorough=600, shards_quick=4, budget_quick=120,
        classes=['lie', 'strang', 'yoshida', 'kahan_li', 'normalize1', 'normalize2']),
    Sub('order', order_case(), body_order, nt, quick=60, thorough=600, shards_quick=8, budget_quick=120,
        classes=['lie', 'strang', 'yoshida', 'kahan_li', 'order_measured', 'inhom', 'complex']),
]
