"""C07 -- ALS/MALS linear solvers: energy descent, fixed point, exactness at full rank."""
import os
import numpy as np
from hypothesis import strategies as st, assume

import scikit_tt.solvers.sle as sle
from scikit_tt.tensor_train import TT
from vt import dense, gen, build
from vt.common import Sub, Violation, require, target
from vt.build import close, require_consistent

PROPERTY_ID = 'C07'
THOROUGH = os.environ.get('VERIF_TIER') == 'thorough'
NMAX = 256 if THOROUGH else 64

RULE = ('Hypothesis draws mode sizes with N = prod(n) <= 64 (quick) / 256 (thorough), order 1..4 (MALS >= 2), a dense '
        'Hermitian positive-definite operator (random unitary x spectrum in [1, kappa], kappa <= 100, real or complex; or a '
        'sum of local SPD terms so that the TT operator has low rank) converted with the harness\' own TT-SVD, a right-hand '
        'side (dense random or low-rank), an initial-guess class (maximal ranks, rank 1, admissible-from-the-right incl. '
        'left-over-parameterised, exact low-rank solution in a random gauge), repeats 1..4 and the micro-solver. Oracle: '
        'x* = numpy.linalg.solve(A, b) and the energy-norm error e(x) = sqrt((x-x*)^H A (x-x*)): e(result) <= e(guess), '
        'e(k+1 sweeps) <= e(k sweeps), exact guess retained, maximal-rank guess gives x* after one sweep, solve == lu, dims of '
        'the rhs, ALS ranks <= guess ranks, MALS ranks <= max_rank. Non-trivial: complex, non-maximal guess with repeats >= 2, '
        'order 1, lu, or MALS with a rank cap.')
RULE += (' ' + 'Added classes: condition number 1e11 (energy norm), NumPy-scalar threshold / max_rank, size-1 modes, and for ALS data with exact zeros (zero right-hand side; diagonal operator, unit-vector guess, sparse right-hand side).')

ASSUMPTIONS = [
    'oracle: numpy.linalg.solve on the dense system; operators are built by vt/dense.tt_svd (not by TT(array))',
    'initial guesses have full-rank interface matrices: ranks admissible from the right (r_i <= n_i r_{i+1}) and continuous '
    'random entries (otherwise the micro systems are singular)',
    'MALS descent/exactness clauses only without effective truncation (threshold in {0, 1e-12}, no cap); with a cap only the '
    'rank and shape clauses are checked',
    'slack 1e-8 relative to ||x*||_A + e(guess); condition number <= 100, plus a class with condition number 1e11 (every clause is stated in the energy norm, in which a backward-stable micro solve is accurate to eps * sqrt(kappa))',
]

DIMS = [d for d in [[2], [3], [5], [8], [2, 2], [2, 3], [3, 3], [4, 2], [4, 4], [2, 2, 2], [2, 3, 2], [3, 3, 3], [2, 2, 4], [4, 4, 4],
                    [2, 2, 2, 2], [3, 2, 2, 3], [2, 3, 3, 2], [4, 4, 4, 4], [3, 3, 3, 3], [2, 2, 2, 2, 2], [2, 1, 2], [1, 3], [3, 1, 2], [2, 2, 1]] if int(np.prod(d)) <= NMAX]


@st.composite
def sle_case(draw, method):
    dims = draw(st.sampled_from([d for d in DIMS if len(d) >= (2 if method == 'mals' else 1) and len(d) <= 4]))
    d = len(dims)
    opk = draw(st.sampled_from(['dense', 'dense', 'local']))
    gk = draw(st.sampled_from(['maximal', 'rank1', 'admissible', 'admissible', 'exact']))
    c = {'method': method, 'dims': dims, 'cplx': draw(st.booleans()), 'op': opk, 'kappa': draw(st.sampled_from([2.0, 10.0, 100.0, 100.0, 1e11])),
         'rhs': draw(st.sampled_from(['dense', 'lowrank'])), 'guess': gk, 'repeats': draw(st.integers(1, 4)),
         'solver': draw(st.sampled_from(['solve', 'lu'])), 'seed': draw(gen.SEED),
         'scale_exp': draw(st.sampled_from([0, 0, 0, -6, -11, 8])),
         # the same system in other units: operator AND right-hand side multiplied by 1e-12 / 1e-14 / 1e9 (same solution)
         'op_scale_exp': draw(st.sampled_from([0, 0, 0, 0, -12, -14, 9]))}
    if gk == 'admissible':
        r = [1] * (d + 1)
        for i in range(d - 1, 0, -1):
            r[i] = draw(st.integers(1, min(dims[i] * r[i + 1], 6)))
        c['ranks'] = r
    if gk == 'exact':
        xr = [1] * (d + 1)
        for i in range(d - 1, 0, -1):
            xr[i] = draw(st.integers(1, min(2, dims[i] * xr[i + 1])))          # admissible from the right also across size-1 modes
        c['xranks'] = xr
    if method == 'mals':
        c['threshold'] = draw(st.sampled_from([0, 1e-12, 1e-12]))
        c['max_rank'] = draw(st.sampled_from([None, None, None, 1, 2, 3]))
        c['max_rank_type'] = draw(st.sampled_from(['int', 'int', 'np.int64', 'np.int32']))
    if method == 'als' and gk != 'exact':
        # data with exact zeros: a zero right-hand side (the solution is the zero tensor), or a diagonal operator with a guess made of
        # canonical unit vectors and a sparse right-hand side orthogonal to a direction the guess carries -- micro solutions then have
        # exactly vanishing columns / rows.  (ALS only: a relative cut on an exactly zero block is outside the domain of MALS.)
        c['structured'] = draw(st.sampled_from([None, None, None, None, 'zero_rhs', 'sparse']))
    if c['cplx'] and gk != 'exact' and draw(st.sampled_from([False, True])):
        c['dtype_mix'] = draw(st.sampled_from([[False, True, False], [False, False, True], [True, False, False], [False, True, True], [True, True, False]]))
    return c


def build_problem(c):
    rng = np.random.default_rng(c['seed'])
    dims, cplx = c['dims'], c['cplx']
    d, N = len(dims), int(np.prod(c['dims']))
    # mixed dtypes among the operands of a complex problem (real operator with a complex right-hand side, ...): [op, rhs, guess]
    mix = c.get('dtype_mix') if (cplx and c['guess'] != 'exact') else None
    cplx_op, cplx_rhs, cplx_guess = (mix if mix else [cplx] * 3)
    cplx_all = cplx
    cplx = cplx_op
    if c['op'] == 'dense':
        lam = np.exp(rng.uniform(0, np.log(c['kappa']), N))
        A = dense.herm(rng, N, cplx, lam)
    else:
        A = np.zeros((N, N), dtype=complex if cplx else float)
        loc = []
        for i in range(d):
            s = dense.herm(rng, dims[i], cplx, rng.uniform(1.0, 3.0, dims[i]))
            loc.append(s)
            A = A + dense.embed(s, i, dims)
        for i in range(d - 1):
            A = A + 0.3 * dense.embed(np.kron(loc[i], loc[i + 1]), i, dims)
    A = (A + A.conj().T) / 2
    op = TT(dense.op_cores(A, dims))

    def rnd_tt(ranks, cp=None):
        return [build.rand_array(rng, (ranks[i], dims[i], 1, ranks[i + 1]), cplx_all if cp is None else cp) for i in range(d)]

    if c['guess'] == 'exact':
        xc = rnd_tt(c['xranks'])
        xs = dense.matrix(xc).reshape(-1)
        b = A @ xs
        rhs = TT(dense.vec_cores(b, dims))
        g = TT(dense.gauge(xc, rng, cplx_all))
    else:
        if c['rhs'] == 'dense':
            b = build.rand_array(rng, (N,), cplx_rhs)
            rhs = TT(dense.vec_cores(b, dims))
        else:
            bc = rnd_tt([1] + [2] * (d - 1) + [1], cplx_rhs)
            b = dense.matrix(bc).reshape(-1)
            rhs = TT(bc)
        xs = np.linalg.solve(A, b)
        if c['guess'] == 'maximal':
            ranks = dense.max_ranks(dims)
        elif c['guess'] == 'rank1':
            ranks = [1] * (d + 1)
        else:
            ranks = c['ranks']
        g = TT(rnd_tt(ranks, cplx_guess))
    if c.get('structured') == 'zero_rhs':
        b = np.zeros(N, dtype=b.dtype)
        xs = np.zeros(N, dtype=xs.dtype)
        rhs = TT([np.zeros((1, dims[i], 1, 1), dtype=complex if cplx_rhs else float) for i in range(d)])
    elif c.get('structured') == 'sparse' and d >= 2 and min(dims) >= 2:
        dt = complex if cplx_all else float
        lams = [rng.uniform(1.0, 2.0, n) for n in dims]
        op = TT([np.diag(l).astype(dt).reshape(1, n, n, 1) for l, n in zip(lams, dims)])
        A = dense.matrix(op.cores)
        r = 2
        gc = []
        for i, n in enumerate(dims):
            core = np.zeros((1 if i == 0 else r, n, 1, 1 if i == d - 1 else r), dtype=dt)
            for k in range(r):
                core[0 if i == 0 else k, k, 0, 0 if i == d - 1 else k] = 1.0
            gc.append(core)
        if cplx_all:
            gc[0] = gc[0] * np.exp(0.3j)
        g = TT(gc)
        bc = []
        for i, n in enumerate(dims):
            v = rng.integers(0, 3, n).astype(dt)
            v[0], v[1] = 1.0, 0.0                    # orthogonal to the second term of the guess
            bc.append(v.reshape(1, n, 1, 1))
        rhs = TT(bc)
        b = dense.matrix(bc).reshape(-1)
        xs = np.linalg.solve(A, b)
    osc = 10.0 ** c.get('op_scale_exp', 0)
    if osc != 1.0:
        A, b = A * osc, b * osc
        op = osc * op
        rhs = osc * rhs
    sc = 10.0 ** c.get('scale_exp', 0)
    if sc != 1.0:
        # the solution is linear in the right-hand side: rescale rhs, exact solution and guess together
        b, xs = b * sc, xs * sc
        rhs = sc * rhs
        g = sc * g
    return A, b, xs, op, rhs, g


def energy_err(A, x, xs):
    e = x - xs
    return float(np.sqrt(max(np.real(np.vdot(e, A @ e)), 0.0)))


def run(c, op, g, rhs, repeats, solver):
    if c['method'] == 'als':
        return sle.als(op, g, rhs, repeats=repeats, solver=solver)
    kw = {'threshold': np.float64(c['threshold']) if c.get('max_rank_type', 'int') != 'int' else c['threshold']}      # (NumPy scalars together)
    if c['max_rank'] is not None:
        # the cap as a python int or as a NumPy integer scalar (the result of np.min(...), an entry of an integer array, ...)
        kw['max_rank'] = {'int': int, 'np.int64': np.int64, 'np.int32': np.int32}[c.get('max_rank_type', 'int')](c['max_rank'])
    return sle.mals(op, g, rhs, repeats=repeats, solver=solver, **kw)


def body(c):
    A, b, xs, op, rhs, g = build_problem(c)
    dims = c['dims']
    d = len(dims)
    snap = [build.snapshot(t) for t in (op, g, rhs)]
    e0 = energy_err(A, dense.matrix(g.cores).reshape(-1), xs)
    scale = float(np.sqrt(np.real(np.vdot(xs, A @ xs)))) + e0
    slack = 1e-8 * scale
    lab = {c['method'], c['solver']}
    structured = c.get('structured') if (c.get('structured') == 'zero_rhs' or (d >= 2 and min(dims) >= 2)) else None
    if structured:
        lab.add('data_with_exact_zeros:' + structured)
    # (zero right-hand side: the iterates are 0 up to rounding noise relative to the guess they started from)
    gn = float(np.linalg.norm(dense.matrix(g.cores))) if structured == 'zero_rhs' else 0.0
    gkind = 'unit_vectors' if structured == 'sparse' else c['guess']          # (the sparse class brings its own guess)
    lab |= {'guess_' + gkind, 'op_' + ('diagonal' if structured == 'sparse' else c['op'])}
    if c['cplx']:
        lab.add('complex')
        if c.get('dtype_mix') and c['guess'] != 'exact':
            lab.add('mixed_operand_dtypes')
    if d == 1:
        lab.add('order1')
    if c.get('scale_exp', 0):
        lab.add('rescaled')
    if c.get('op_scale_exp', 0):
        lab.add('operator_in_other_units')
    if c['kappa'] > 1e6 and c['op'] == 'dense':
        lab.add('condition_1e11')
    capped = c['method'] == 'mals' and c['max_rank'] is not None
    if capped:
        lab.add('rank_cap')
        if c.get('max_rank_type', 'int') != 'int':
            lab.add('rank_cap_numpy_integer')
    errs = [e0]
    last = None
    for k in range(1, c['repeats'] + 1):
        x = run(c, op, g, rhs, k, c['solver'])
        require_consistent(x, 'consistent')
        require(x.row_dims == list(rhs.row_dims) and x.col_dims == [1] * d, 'dims', 'rows %s cols %s' % (x.row_dims, x.col_dims))
        if c['method'] == 'als':
            require(all(x.ranks[i] <= g.ranks[i] for i in range(d + 1)), 'als_ranks', 'ranks %s exceed guess ranks %s' % (x.ranks, g.ranks))
        elif capped:
            require(all(x.ranks[i] <= c['max_rank'] for i in range(1, d)), 'mals_max_rank', 'ranks %s exceed max_rank %s' % (x.ranks, c['max_rank']))
        xv = dense.matrix(x.cores).reshape(-1)
        require(np.all(np.isfinite(xv)), 'finite', 'solution contains non-finite entries')
        errs.append(energy_err(A, xv, xs))
        last = xv
    for i, t in enumerate((op, g, rhs)):
        build.require_unchanged(t, snap[i], ['operator', 'initial guess', 'right-hand side'][i])
    if not capped:
        if errs[0] > 1e-6 * scale:
            target(max(errs[k + 1] / max(errs[k], 1e-300) for k in range(len(errs) - 1) if errs[k] > 1e-9 * scale), 'worst error ratio between sweeps')
        require(errs[1] <= errs[0] + slack, 'descent_vs_guess', 'energy error %.3e after one sweep > %.3e of the guess' % (errs[1], errs[0]))
        for k in range(1, len(errs) - 1):
            require(errs[k + 1] <= errs[k] + slack, 'descent_in_sweeps',
                    'energy error grew from %.6e (%d sweeps) to %.6e (%d sweeps)' % (errs[k], k, errs[k + 1], k + 1))
        if gkind == 'exact':
            require(errs[1] <= 1e-8 * scale, 'fixed_point', 'exact solution as guess: energy error %.3e after one sweep (scale %.3e)' % (errs[1], scale))
            require(errs[-1] <= 1e-8 * scale, 'fixed_point', 'exact solution as guess: energy error %.3e after %d sweeps' % (errs[-1], c['repeats']))
        if gkind == 'maximal':
            require(errs[1] <= 1e-8 * c['kappa'] * scale, 'exact_at_full_rank',
                    'maximal-rank guess: energy error %.3e after one sweep (scale %.3e)' % (errs[1], scale))
        if gkind in ('rank1', 'admissible', 'unit_vectors') and c['repeats'] >= 2:
            lab.add('multi_sweep_lowrank')
        # calling again with the same arguments gives the same result (no hidden state between calls)
        again = dense.matrix(run(c, op, g, rhs, c['repeats'], c['solver']).cores).reshape(-1)
        close(again, last, 1e-12, float(np.linalg.norm(last)) + gn + 1e-300, 'repeatable', 'second call with identical arguments')
        # both micro-solvers agree
        other = 'lu' if c['solver'] == 'solve' else 'solve'
        y = run(c, op, g, rhs, c['repeats'], other)
        yv = dense.matrix(y.cores).reshape(-1)
        # two backward-stable solvers agree up to rounding times the condition number of the (micro) systems: for kappa = 1e11 the
        # iterates are compared in the energy norm, in which both are accurate to eps * sqrt(kappa)
        if c['kappa'] > 1e6:
            dv = yv - last
            require(float(np.sqrt(abs(np.vdot(dv, A @ dv)))) <= 1e-7 * scale, 'solve_lu_agree',
                    'solve vs lu differ by %.3e in the energy norm (scale %.3e)' % (float(np.sqrt(abs(np.vdot(dv, A @ dv)))), scale))
        else:
            close(yv, last, 1e-7, float(np.linalg.norm(xs)) + float(np.linalg.norm(last)) + gn, 'solve_lu_agree', 'solve vs lu')
    if c.get('ranks') and any(c['ranks'][i + 1] > c['ranks'][i] * dims[i] for i in range(d)):
        lab.add('left_overparam')
    return lab


def nt(labels):
    return bool({'complex', 'multi_sweep_lowrank', 'order1', 'lu', 'rank_cap', 'guess_exact', 'rescaled'} & set(labels))


SUBCHECKS = [
    Sub('als', sle_case('als'), body, nt, quick=400, thorough=3000, shards_quick=8, budget_quick=120,
        classes=['complex', 'order1', 'lu', 'guess_maximal', 'guess_rank1', 'guess_admissible', 'guess_exact', 'multi_sweep_lowrank',
                 'op_local', 'left_overparam', 'rescaled']),
    Sub('mals', sle_case('mals'), body, nt, quick=400, thorough=3000, shards_quick=8, budget_quick=120,
        classes=['complex', 'lu', 'rank_cap', 'guess_maximal', 'guess_rank1', 'guess_exact', 'multi_sweep_lowrank']),
]
