"""C16 -- MANDy and ARR return (descend to) the least-squares coefficient tensor."""
import numpy as np
from hypothesis import strategies as st, assume

import scikit_tt.data_driven.regression as reg
import scikit_tt.data_driven.transform as tdt
from scikit_tt.tensor_train import TT
from vt import dense, gen, build
from vt.common import Sub, Violation, require
from vt.build import close, require_consistent
from vt.props import c15

PROPERTY_ID = 'C16'

RULE = ('Hypothesis draws the state dimension d (1..3), snapshot count m (under- and over-determined, optionally with a '
        'duplicated snapshot = exact rank deficiency), the form of the data (float / integer dtype / strided view / Fortran order) and of the right-hand sides (float / integer / Fortran), output dimension, scalar basis lists (coordinate-/function-major, '
        'add_one) or product bases of Function objects incl. user-defined ones and modes with a single function (kernel variant, ARR), thresholds (0 when the dense spectrum is well '
        'conditioned, 1e-9 otherwise), ARR guess ranks, repeats 1..4 and rcond = 1e-13. Oracle: numpy.linalg.pinv of the '
        'explicitly built transformed data matrix: Xi_mat == (y pinv(Psi, rcond))^T; kernel variant z G == y pinv(Psi) Psi; ARR '
        'per-output residual ||Xi^T Psi - y|| non-increasing in the sweep count (slack 1e-7 ||y||), ranks of the guess kept, guess '
        'bit-identical. Non-trivial: duplicated snapshot, under-determined system, add_one = False, d = 1 or several outputs.')
RULE += (' ' + 'Added classes: complex right-hand sides (direct MANDy variants and ARR); the ARR guess is compared bit by bit.')

RULE += (' Sub-check mandy_nearly_coincident: two snapshots 3e-12 ... 1e-9 apart in one coordinate (Psi of full column rank, smallest singular-value '
         'ratio 2e-12 ... 1e-8), threshold 0; oracle: the residual bound of a backward-stable pseudoinverse, ||Xi^T Psi - y|| <= 300 eps cond(Psi) ||y|| '
         '(only where that is below 0.05 ||y||); non-trivial = ratio below 1e-8.')

ASSUMPTIONS = [
    'oracle: numpy.linalg.pinv / explicit loops; the transformed data matrix is built by the harness (c15.psi_ref)',
    'thresholds lie below the smallest relevant singular-value ratio: cases with a singular-value ratio of an unfolding of Psi in '
    '(1e-12, 1e-5) are discarded; threshold 0 only for spectra without numerically zero singular values',
    'kernel variant: Gram matrix regular (cond < 1e8) or exactly rank-deficient (more snapshots than product basis functions, '
    'duplicated snapshot) with a well-conditioned non-zero part',
    'ARR: the same guard band applies to Psi and to the per-mode function-value matrices (ill-conditioned least-squares '
    'problems descend only up to rounding times the condition number)',
    'ARR: initial guess is a TT (a list of TTs is documented to be used in place) with ranks admissible from both sides',
]

SC = c15.SCALAR
SCF = c15.SCALAR_F


Y_FORM = st.sampled_from(['float', 'float', 'float', 'int', 'fortran'])


def make_y(rng, shape, form):
    """right-hand sides: float64, integer-typed (python users pass labels / counts), or Fortran-ordered"""
    if form == 'int':
        return rng.integers(-3, 4, shape).astype(np.int64)
    y = rng.standard_normal(shape)
    if form == 'complex':
        return y + 1j * rng.standard_normal(shape)          # complex-valued observables (MANDy direct variants only)
    return np.asfortranarray(y) if form == 'fortran' else y


def form_labels(c):
    lab = set()
    if c.get('data_form', 'float') != 'float':
        lab.add('data_' + c['data_form'])
    if c.get('y_form', 'float') != 'float':
        lab.add('y_' + c['y_form'])
    return lab


def spectra_ok(psi, n_modes, zero_allowed):
    """psi: array (n_1..n_p, m). guard band on the singular values of all prefix unfoldings"""
    shape = psi.shape
    for k in range(1, n_modes + 1):
        sv = np.linalg.svd(psi.reshape(int(np.prod(shape[:k])), -1), compute_uv=False)
        if sv[0] == 0:
            return False
        mid = (sv > 1e-12 * sv[0]) & (sv < 1e-5 * sv[0])
        if np.any(mid):
            return False
        if not zero_allowed and np.any(sv <= 1e-12 * sv[0]):
            return False
    return True


@st.composite
def mandy_case(draw):
    d = draw(st.integers(1, 3))
    variant = draw(st.sampled_from(['cm', 'fm']))
    p = draw(st.integers(1, 3))
    names = draw(st.lists(st.sampled_from(SC), min_size=p, max_size=p, unique=True))
    if variant == 'cm' and 'one' not in names and draw(st.booleans()):
        names[0] = 'one'
    return {'d': d, 'variant': variant, 'phi': names, 'm': draw(st.sampled_from([2, 3, 4, 6, 9, 12])), 'add_one': draw(st.booleans()),
            'duplicate': draw(st.sampled_from([False, False, True])), 'seed': draw(gen.SEED), 'ydim': draw(st.sampled_from(['d'])),
            'data_form': draw(c15.DATA_FORM), 'y_form': draw(st.one_of(Y_FORM, st.sampled_from(['float', 'complex']))),
            'tight_threshold': draw(st.sampled_from([False, False, True]))}


def local_ratios(vals, m):
    """singular-value ratios s/s[0] that the left-to-right sweep of pinv sees on the transformed data tensor built from the per-mode
    value matrices vals[i] (n_i x m): core 0 is (1, n_0, 1, m), core i is 'diagonal' in the snapshot index.  Plain NumPy replay of
    M_i[(r, k), j] = R[r, j] * vals_i[k, j],  M_i = U S V^H,  R <- S V^H."""
    R = np.ones((1, m))
    out = []
    for v in vals:
        M = (R[:, None, :] * v[None, :, :]).reshape(R.shape[0] * v.shape[0], m)
        U, S, Vh = np.linalg.svd(M, full_matrices=False)
        out.append(S / S[0] if S[0] > 0 else S)
        keep = S > 1e-12 * S[0]
        R = S[keep, None] * Vh[keep]
    return out


def body_mandy(c):
    x = c15.data(c)
    d, m = c['d'], c['m']
    rng = np.random.default_rng(c['seed'] + 1)
    y = make_y(rng, (d, m), c.get('y_form', 'float'))
    names = c['phi']
    phi = [SCF[k] for k in names]
    if c['variant'] == 'cm':
        vals = [np.array([[SCF[k](x[i, j]) for j in range(m)] for k in names]) for i in range(d)]
        nmodes = d
    else:
        vals = []
        for k in names:
            v = np.array([[SCF[k](x[cc, j]) for j in range(m)] for cc in range(d)])
            if c['add_one']:
                v = np.vstack([np.ones((1, m)), v])
            vals.append(v)
        nmodes = len(names)
    psi = c15.psi_ref(vals)
    dup = c['duplicate'] and m >= 2
    M = psi.reshape(-1, m)
    sv = np.linalg.svd(M, compute_uv=False)
    deficient = bool(np.any(sv <= 1e-12 * sv[0])) or dup
    assume(spectra_ok(psi, nmodes, zero_allowed=True))
    th = 1e-9 if deficient else c.get('threshold', 0.0)
    tight = False
    if c.get('tight_threshold'):
        # "thresholds below the smallest singular-value ratio": a threshold 10 % below the smallest non-zero ratio any sweep of the
        # pseudoinverse sees (replayed in NumPy) cuts nothing but exact zeros, so the result is still the minimum-norm solution
        ratios = np.concatenate(local_ratios(vals, m))
        nz = ratios[ratios > 1e-12]
        assume(len(nz) > 0 and nz.min() >= 1e-3)
        th = 0.9 * float(nz.min())
        tight = True
    # with threshold 0 the routine inverts every singular value it finds: require a spectrum without numerical zeros
    if th == 0:
        assume(spectra_ok(psi, nmodes, zero_allowed=False))
    if c['variant'] == 'cm':
        xi = reg.mandy_cm(x, y, phi, threshold=th)
    else:
        xi = reg.mandy_fm(x, y, phi, threshold=th, add_one=c['add_one'])
    require_consistent(xi, 'consistent')
    n = list(psi.shape[:-1])
    require(xi.row_dims == n + [d] and xi.col_dims == [1] * (nmodes + 1), 'dims', 'rows %s, expected %s' % (xi.row_dims, n + [d]))
    got = dense.contract(xi.cores).reshape(int(np.prod(n)), d)
    want = (y @ np.linalg.pinv(M, rcond=1e-9 if th else 1e-12)).T
    smin = sv[sv > 1e-10 * sv[0]].min()
    cond = sv[0] / smin
    # scale: the size of the solution, but not less than a thousandth of ||y|| ||pinv(Psi)|| (right-hand sides that are
    # (nearly) orthogonal to the row space have a solution of size ~0, which rounding cannot reproduce relatively)
    scale = max(np.max(np.abs(want)), 1e-3 * float(np.linalg.norm(y)) / smin, 1e-300)
    close(got, want, 1e-11 * cond * cond + 1e-9, scale, 'mandy_value', 'mandy_%s vs (y pinv(Psi))^T' % c['variant'])
    lab = {'mandy_' + c['variant']}
    if dup:
        lab.add('duplicated_snapshot')
    if M.shape[0] > m:
        lab.add('underdetermined')
    else:
        lab.add('overdetermined')
    if c['variant'] == 'fm' and not c['add_one']:
        lab.add('add_one_false')
    if d == 1:
        lab.add('d1')
    if th:
        lab.add('threshold>0')
    if tight:
        lab.add('threshold_just_below_smallest_ratio')
    return lab | form_labels(c)


# ---------------------------------------------------------------------------------------------------------
# MANDy on full-rank but badly conditioned data (two nearly coincident snapshots), threshold 0
# ---------------------------------------------------------------------------------------------------------
# "Thresholds below the smallest singular-value ratio" includes threshold 0 on a matrix Psi of full column rank whose smallest
# singular-value ratio is 1e-11: every singular value is inverted.  The solution itself is then determined only to eps cond^2, so
# it is not compared; what a backward-stable pseudoinverse still guarantees is the RESIDUAL: Psi + E = U S V^T with
# ||E|| <= c eps ||Psi|| gives Xi^T Psi - y = -y V S^-1 U^T E, i.e. ||Xi^T Psi - y|| <= c eps cond(Psi) ||y||, while dropping the
# smallest singular direction leaves the component of y along it (about ||y|| / sqrt(m) for a generic y).  c = 300 (measured on
# the unchanged tree: c <= 5, see DESIGN 9.2), and the clause is only evaluated where the bound is below 0.05 ||y||.

@st.composite
def nearly_coincident_case(draw):
    d = draw(st.integers(1, 3))
    variant = draw(st.sampled_from(['cm', 'fm']))
    names = draw(st.lists(st.sampled_from(['one', 'id', 'sq', 'cube', 'sin', 'cos', 'exp']), min_size=2, max_size=3, unique=True))
    return {'d': d, 'variant': variant, 'phi': names, 'm': draw(st.sampled_from([2, 3, 4, 5])), 'add_one': draw(st.booleans()),
            'seed': draw(gen.SEED), 'delta': draw(st.sampled_from([1e-11, 3e-12, 3e-11, 1e-9])), 'y_form': draw(Y_FORM),
            'pair': draw(st.sampled_from(['last_first', 'adjacent']))}


def body_nearly_coincident(c):
    d, m = c['d'], c['m']
    rng = np.random.default_rng(c['seed'])
    x = rng.uniform(-1, 1, (d, m))
    a, b = (m - 1, 0) if c['pair'] == 'last_first' else (1, 0)
    x[:, a] = x[:, b]
    x[c['seed'] % d, a] += c['delta']                   # two snapshots that differ by delta in one coordinate
    y = make_y(np.random.default_rng(c['seed'] + 1), (d, m), c.get('y_form', 'float'))
    names = c['phi']
    phi = [SCF[k] for k in names]
    if c['variant'] == 'cm':
        vals = [np.array([[SCF[k](x[i, j]) for j in range(m)] for k in names]) for i in range(d)]
    else:
        vals = []
        for k in names:
            v = np.array([[SCF[k](x[cc, j]) for j in range(m)] for cc in range(d)])
            if c['add_one']:
                v = np.vstack([np.ones((1, m)), v])
            vals.append(v)
    psi = c15.psi_ref(vals)
    M = psi.reshape(-1, m)
    assume(M.shape[0] >= m)
    sv = np.linalg.svd(M, compute_uv=False)
    assume(sv[0] > 0)
    ratio = float(sv[-1] / sv[0])
    # full column rank (every snapshot is interpolated exactly by the minimum-norm solution) and a useful bound
    bound = 300 * np.finfo(float).eps / max(ratio, 1e-300)
    assume(ratio > 1e-12 and bound < 0.05)
    assume(float(np.linalg.norm(y)) > 0)
    if c['variant'] == 'cm':
        xi = reg.mandy_cm(x, y, phi, threshold=0.0)
    else:
        xi = reg.mandy_fm(x, y, phi, threshold=0.0, add_one=c['add_one'])
    require_consistent(xi, 'consistent')
    n = list(psi.shape[:-1])
    require(xi.row_dims == n + [d] and xi.col_dims == [1] * (len(n) + 1), 'dims', 'rows %s, expected %s' % (xi.row_dims, n + [d]))
    got = dense.contract(xi.cores).reshape(int(np.prod(n)), d)
    require(np.all(np.isfinite(got)), 'finite', 'non-finite coefficients')
    res = float(np.linalg.norm(got.T @ M - y))
    require(res <= bound * float(np.linalg.norm(y)), 'mandy_interpolates',
            'mandy_%s, threshold 0, full column rank, smallest singular-value ratio %.2e: ||Xi^T Psi - y|| = %.3e ||y|| > %.3e ||y|| (300 eps cond)'
            % (c['variant'], ratio, res / float(np.linalg.norm(y)), bound))
    lab = {'mandy_' + c['variant'], 'nearly_coincident_snapshots'}
    if ratio < 1e-10:
        lab.add('ratio_below_1e-10')
    elif ratio < 1e-8:
        lab.add('ratio_below_1e-8')
    if c['variant'] == 'fm' and not c['add_one']:
        lab.add('add_one_false')
    if d == 1:
        lab.add('d1')
    return lab | form_labels(c)


@st.composite
def kernel_case(draw):
    d = draw(st.integers(1, 3))
    p = draw(st.integers(1, 3))
    phi = [[c15.fn_spec(draw, d) for _ in range(draw(st.sampled_from([1, 2, 3, 3])))] for _ in range(p)]
    N = int(np.prod([len(f) for f in phi]))
    gram = draw(st.sampled_from(['regular', 'regular', 'extra_snapshots', 'duplicate']))
    m = draw(st.sampled_from([1, 2, 3, 4, 6]))
    if gram == 'extra_snapshots':
        m = N + draw(st.integers(1, 3))         # more snapshots than product basis functions: singular Gram matrix
    return {'d': d, 'm': m, 'phi': phi, 'seed': draw(gen.SEED), 'dy': draw(st.integers(1, 3)), 'duplicate': gram == 'duplicate' and m >= 2,
            'gram': gram, 'data_form': draw(c15.DATA_FORM), 'y_form': draw(Y_FORM)}


def body_kernel(c):
    x = c15.data(c)
    m = c['m']
    rng = np.random.default_rng(c['seed'] + 1)
    y = make_y(rng, (c['dy'], m), c.get('y_form', 'float'))
    phi = [[c15.make_fn(s) for s in f] for f in c['phi']]
    vals = [np.array([[c15.ref_value(s, x[:, j]) for j in range(m)] for s in f]) for f in c['phi']]
    M = c15.psi_ref(vals).reshape(-1, m)
    G = M.T @ M
    sv = np.linalg.svd(M, compute_uv=False)
    assume(sv[0] > 0)
    # either a regular Gram matrix (cond < 1e8) or an exactly rank-deficient one whose non-zero part is well conditioned
    assume(not np.any((sv > 1e-12 * sv[0]) & (sv < 1e-4 * sv[0])))
    singular = bool(np.any(sv <= 1e-12 * sv[0])) or m > M.shape[0]
    z = reg.mandy_kb(x, y, phi)
    require(isinstance(z, np.ndarray) and z.shape == (c['dy'], m), 'kernel_shape', 'z has shape %s' % (getattr(z, 'shape', None),))
    # (the same cut as the guard band above: singular values of Psi below 1e-12 s_0 count as zero -- the Gram matrix squares them to
    # below 1e-24, which double precision cannot tell from zero)
    want = y @ np.linalg.pinv(M, rcond=1e-12) @ M
    close(z @ G, want, 1e-6, max(np.max(np.abs(y)), 1.0), 'kernel_value', 'z G vs y pinv(Psi) Psi (fitted values)')
    lab = {'kernel', 'singular_gram' if singular else 'regular_gram'}
    if c['dy'] > 1:
        lab.add('several_outputs')
    if m == 1:
        lab.add('m1')
    if any(len(f) == 1 for f in c['phi']):
        lab.add('single_function_mode')
    if any(s_['family'] in c15.USER_FAMS for f in c['phi'] for s_ in f):
        lab.add('user_defined_function')
    return lab | form_labels(c)


@st.composite
def arr_case(draw):
    d = draw(st.integers(1, 3))
    p = draw(st.integers(2, 4))
    phi = [[c15.fn_spec(draw, d) for _ in range(draw(st.sampled_from([1, 2, 2, 3])))] for _ in range(p)]
    n = [len(f) for f in phi]
    mr = dense.max_ranks(n)
    ranks = [1] + [draw(st.integers(1, min(mr[i], 3))) for i in range(1, p)] + [1]
    for i in range(p):                      # admissible from the left: r_{i+1} <= r_i n_i
        ranks[i + 1] = min(ranks[i + 1], ranks[i] * n[i])
    for i in range(p - 1, -1, -1):          # and from the right: r_i <= n_i r_{i+1}
        ranks[i] = min(ranks[i], n[i] * ranks[i + 1])
    illc = draw(st.sampled_from([False, False, True]))
    xscale = None
    if not illc and draw(st.sampled_from([False, False, True])):
        # badly scaled features: every basis function is a coordinate itself and the data are of size 1e-4 / 1e3, so that Psi is the
        # well-conditioned Psi of O(1) data times 10^(k p) -- least squares (with a RELATIVE cut-off) does not care
        xscale = draw(st.sampled_from([-4, -3, 3]))
        phi = [[{'family': 'identity', 'index': draw(st.integers(0, d - 1))} for _ in f] for f in phi]
    if illc:
        # moderately ill-conditioned class: monomials on a short interval, many more snapshots than core unknowns
        same = draw(st.booleans())       # every mode on one coordinate: strongly correlated factors
        phi = [[{'family': 'monomial', 'index': 0 if same else draw(st.integers(0, d - 1)), 'exponent': 2 * e} for e in range(len(f))] for f in phi]
    return {'d': d, 'm': draw(st.sampled_from([3, 5, 8, 12])) if not illc else draw(st.sampled_from([30, 60])), 'phi': phi, 'ranks': ranks,
            'seed': draw(gen.SEED), 'dy': draw(st.integers(1, 2)), 'illcond': illc, 'x_scale_exp': xscale,
            'repeats': draw(st.integers(1, 4)) if not illc else draw(st.sampled_from([2, 3, 4])), 'exact': draw(st.booleans()) and not illc,
            'data_form': draw(c15.DATA_FORM), 'y_form': draw(st.one_of(Y_FORM, st.sampled_from(['float', 'float', 'complex'])))}


def body_arr(c):
    x = c15.data(c)
    illc = bool(c.get('illcond'))
    m = c['m']
    if c.get('x_scale_exp'):
        x = np.asarray(x, dtype=float) * 10.0 ** c['x_scale_exp']
    if illc:
        # shrink the data interval until the transformed data matrix has its smallest non-zero singular-value ratio between 3e-8
        # and 1e-6 (deterministic in the case): cond(Psi) ~ 1e7, far from the 1e-13 cut-off but well inside the region where a
        # less careful solve (normal equations, single precision, ...) breaks down
        x = np.asarray(x, dtype=float)
        for sc in (1.0, 0.7, 0.5, 0.35, 0.25, 0.18, 0.12, 0.08, 0.05):
            xs = x * sc
            vv = [np.array([[c15.ref_value(s_, xs[:, j]) for j in range(m)] for s_ in f]) for f in c['phi']]
            sv = np.linalg.svd(c15.psi_ref(vv).reshape(-1, m), compute_uv=False)
            nz = sv[sv > 1e-12 * sv[0]] / sv[0]
            if 3e-8 < nz.min() < 1e-6:
                break
        x = xs
    rng = np.random.default_rng(c['seed'] + 1)
    phi = [[c15.make_fn(s) for s in f] for f in c['phi']]
    n = [len(f) for f in phi]
    p = len(n)
    vals = [np.array([[c15.ref_value(s, x[:, j]) for j in range(m)] for s in f]) for f in c['phi']]
    psi = c15.psi_ref(vals)
    M = psi.reshape(-1, m)
    # conditioning guard: the micro least-squares problems inherit the spectrum of Psi; singular values that are neither
    # numerically zero nor well separated from zero make 'non-increasing up to rounding' meaningless
    if illc:
        # wider band: ratios down to 1e-8 are admitted (the cut-off 1e-13 is still negligible against them); the descent slack
        # below is 1e-5 ||y|| for this class (rounding times a condition number of up to 1e8)
        shape = psi.shape
        for k in range(1, p + 1):
            sv = np.linalg.svd(psi.reshape(int(np.prod(shape[:k])), -1), compute_uv=False)
            assume(sv[0] > 0 and not np.any((sv > 1e-12 * sv[0]) & (sv < 1e-8 * sv[0])))
    else:
        assume(spectra_ok(psi, p, zero_allowed=True))
    for v in vals:
        sv = np.linalg.svd(v, compute_uv=False)
        assume(not np.any((sv > 1e-12 * sv[0]) & (sv < (1e-6 if illc else 1e-3) * sv[0])))
    if c['exact']:
        # exactly fittable right-hand side: y = xi_true^T Psi with a low-rank coefficient tensor
        y = np.array([dense.contract([rng.standard_normal((c['ranks'][i], n[i], 1, c['ranks'][i + 1])) for i in range(p)]).reshape(-1) @ M
                      for _ in range(c['dy'])])
    else:
        y = make_y(rng, (c['dy'], m), c.get('y_form', 'float'))
    g = TT([rng.standard_normal((c['ranks'][i], n[i], 1, c['ranks'][i + 1])) for i in range(p)])
    snap = build.snapshot(g)
    ynorm = max(np.linalg.norm(y), 1e-300)

    nPsi = float(np.linalg.norm(M, 2))
    xin = [0.0] * c['dy']          # largest coefficient norm seen per output

    def residuals(sol):
        out = []
        for k, t in enumerate(sol):
            require_consistent(t, 'consistent')
            require(t.row_dims == n and t.col_dims == [1] * p, 'dims', 'rows %s' % t.row_dims)
            require(list(t.ranks) == list(g.ranks), 'ranks_kept', 'ranks %s, guess had %s' % (t.ranks, g.ranks))
            xi = dense.contract(t.cores).reshape(-1)
            xin[k] = max(xin[k], float(np.linalg.norm(xi)))
            out.append(float(np.linalg.norm(xi @ M - y[k])))
        return out

    g0 = dense.contract(g.cores).reshape(-1)
    prev = [float(np.linalg.norm(g0 @ M - y[k])) for k in range(c['dy'])]
    for r in range(1, c['repeats'] + 1):
        sol = reg.arr(x, y, phi, g, repeats=r, rcond=1e-13, progress=False)
        require(isinstance(sol, list) and len(sol) == c['dy'], 'arr_outputs', '%d solutions for %d output rows' % (len(sol), c['dy']))
        build.require_unchanged(g, snap, 'initial guess of arr', strict=True)
        res = residuals(sol)
        for k in range(c['dy']):
            # resolution of the harness' own residual evaluation: Xi^T Psi - y in floating point is only accurate to about
            # eps ||Xi|| ||Psi|| (micro systems compressed onto small frames can be far worse conditioned than Psi, the
            # coefficients then reach 1e12 and differences of 1e-5 between two such residuals are rounding of the oracle)
            meas = 20 * 2.3e-16 * xin[k] * nPsi
            require(res[k] <= prev[k] + (1e-5 if illc else 1e-7) * ynorm + meas, 'arr_descent',
                    'output %d: residual %.6e after %d sweeps, %.6e after %d' % (k, res[k], r, prev[k], r - 1))
        prev = res
    lab = {'arr', 'repeats%d' % c['repeats']}
    if (c['seed'] % 3 == 0 and not illc and isinstance(x, np.ndarray) and x.dtype.kind == 'f' and x.flags.writeable
            and not np.iscomplexobj(y)):
        # streaming use: the caller refills the SAME data array with new snapshots (reversed order, shrunk by 0.8) and fits again with
        # the same basis-function objects and the same guess -- the descent property then refers to the new data
        x[...] = 0.8 * np.array(x[:, ::-1])
        vals2 = [np.array([[c15.ref_value(s_, x[:, j]) for j in range(m)] for s_ in f]) for f in c['phi']]
        psi2 = c15.psi_ref(vals2)
        M2 = psi2.reshape(-1, m)
        ok2 = spectra_ok(psi2, p, zero_allowed=True) and all(
            not np.any((sv_ > 1e-12 * sv_[0]) & (sv_ < 1e-3 * sv_[0])) for sv_ in [np.linalg.svd(v_, compute_uv=False) for v_ in vals2])
        if ok2:
            nPsi2 = float(np.linalg.norm(M2, 2))
            prev2 = [float(np.linalg.norm(g0 @ M2 - y[k])) for k in range(c['dy'])]
            for r in range(1, min(c['repeats'], 2) + 1):
                sol2 = reg.arr(x, y, phi, g, repeats=r, rcond=1e-13, progress=False)
                res2 = []
                for k, t in enumerate(sol2):
                    require_consistent(t, 'consistent')
                    xi = dense.contract(t.cores).reshape(-1)
                    res2.append(float(np.linalg.norm(xi @ M2 - y[k])))
                    meas = 20 * 2.3e-16 * float(np.linalg.norm(xi)) * nPsi2
                    require(res2[k] <= prev2[k] + 1e-7 * ynorm + meas, 'arr_descent',
                            'after the data array was refilled in place -- output %d: residual %.6e after %d sweeps, %.6e after %d' % (k, res2[k], r, prev2[k], r - 1))
                prev2 = res2
            lab.add('data_array_refilled_in_place')
    if c['dy'] > 1:
        lab.add('several_outputs')
    if c['exact']:
        lab.add('exactly_fittable')
    if c['d'] == 1:
        lab.add('d1')
    if any(len(f) == 1 for f in c['phi']):
        lab.add('single_function_mode')
    if any(s_['family'] in c15.USER_FAMS for f in c['phi'] for s_ in f):
        lab.add('user_defined_function')
    if c.get('x_scale_exp'):
        lab.add('badly_scaled_features')
    if illc:
        lab.add('moderately_ill_conditioned')
        cn = np.linalg.svd(M, compute_uv=False)
        if cn[0] / cn[cn > 1e-12 * cn[0]].min() > 1e6:
            lab.add('cond>1e6')
    return lab | form_labels(c)


def nt(labels):
    return bool({'singular_gram', 'duplicated_snapshot', 'underdetermined', 'add_one_false', 'd1', 'several_outputs', 'exactly_fittable', 'threshold>0',
                 'data_int', 'data_strided', 'data_fortran', 'y_int', 'y_fortran', 'single_function_mode'} & set(labels))


SUBCHECKS = [
    Sub('mandy', mandy_case(), body_mandy, nt, quick=400, thorough=4000, shards_quick=4,
        classes=['mandy_cm', 'mandy_fm', 'duplicated_snapshot', 'underdetermined', 'overdetermined', 'add_one_false', 'threshold>0', 'd1',
                 'data_int', 'data_strided', 'y_int', 'threshold_just_below_smallest_ratio']),
    Sub('mandy_nearly_coincident', nearly_coincident_case(), body_nearly_coincident, lambda l: bool({'ratio_below_1e-10', 'ratio_below_1e-8'} & set(l)),
        quick=300, thorough=3000, classes=['mandy_cm', 'mandy_fm', 'ratio_below_1e-10', 'ratio_below_1e-8', 'add_one_false', 'd1']),
    Sub('kernel', kernel_case(), body_kernel, nt, quick=300, thorough=3000, classes=['kernel', 'several_outputs', 'singular_gram', 'regular_gram', 'single_function_mode', 'user_defined_function']),
    Sub('arr', arr_case(), body_arr, nt, quick=400, thorough=3000, shards_quick=8, budget_quick=150,
        classes=['arr', 'several_outputs', 'exactly_fittable', 'repeats1', 'repeats4', 'single_function_mode', 'moderately_ill_conditioned', 'cond>1e6']),
]
