"""C14 -- basis functions: derivatives are the derivatives of the function."""
import numpy as np
from hypothesis import strategies as st

import scikit_tt.data_driven.transform as tdt
from vt import gen
from vt.common import Sub, Violation, require
from vt.build import close

PROPERTY_ID = 'C14'

RULE = ('Hypothesis draws a family (constant, identity, monomial with exponent 0..6 and prefactor, Legendre degree 0..8 with '
        'domain scale 1e-3..1000, sine/cosine with alpha in [-3,3], Gauss and periodic Gauss with mean/variance, B-spline with '
        'random knots, degree 1..3 and coefficients), the state dimension 1..4, the coordinate index, whether the dimension is '
        'passed to the constructor, and evaluation points in the domain (splines: away from knots), handed over as float arrays, '
        'python lists or integer-typed arrays/lists. Oracle: complex-step '
        'differentiation Im f(x + i h e_k)/h (h = 1e-30) of the evaluation for the first derivative and of the analytic first '
        'derivative for the second (Richardson-extrapolated central differences for splines); zero in foreign coordinates; '
        'gradient/hessian entry-wise equal to partial/partial2; evaluation on a d x m array equals point-wise evaluation. '
        'NotImplementedError for second derivatives of periodic Gauss / B-spline is the documented contract. Non-trivial: '
        'parameters other than the ones in tests (mean != 0, alpha != 1, domain != 1, prefactor != 1) or dimension > 1.')
RULE += (' ' + 'Added classes: Legendre domains 1e-3 ... 1000, B-spline evaluation at the end knots, the same point array updated in place between two rounds of queries, earlier results kept by the caller.')

RULE += (' Added classes: directions given as NumPy integers; parameter attributes (alpha, mean, variance, exponent, prefactor, degree, domain) re-assigned after construction and first use, compared with a fresh object.')

ASSUMPTIONS = [
    'oracle: complex-step / Richardson differentiation of the evaluation itself (independent of the derivative code)',
    'evaluation points inside the natural domain; spline points at least 0.05 away from every knot',
    'B-spline degree >= 1 (scipy cannot differentiate a degree-0 spline; the constructor passes its ValueError on)',
    'tolerance 1e-8 relative to (1 + |value|) for complex-step, 1e-5 for Richardson differences',
]

FAMILIES = ['constant', 'identity', 'monomial', 'legendre', 'sin', 'cos', 'gauss', 'periodic_gauss', 'bspline']


@st.composite
def fn_case(draw):
    fam = draw(st.sampled_from(FAMILIES))
    d = draw(st.integers(1, 4))
    idx = draw(st.integers(0, d - 1))
    c = {'family': fam, 'd': d, 'index': idx, 'explicit_dim': draw(st.booleans()), 'seed': draw(gen.SEED),
         'm': draw(st.integers(1, 5)), 'first_call': draw(st.sampled_from(['call', 'gradient', 'hessian', 'partial', 'partial2'])),
         'point_type': draw(st.sampled_from(['float', 'float', 'float_list', 'int_array', 'int_list'])) if fam != 'bspline' else 'float',
         # the direction arguments as the caller has them: python ints, or NumPy integers (for k in np.arange(d), np.argmax(...))
         'direction_type': draw(st.sampled_from(['int', 'int', 'np.int64', 'np.intp'])),
         # a parameter attribute (alpha, mean, exponent, ...) re-assigned after construction
         'reassign': draw(st.sampled_from([False, False, True]))}
    fl = lambda a, b: draw(st.floats(a, b, allow_nan=False, allow_infinity=False))
    if fam == 'monomial':
        c['exponent'] = draw(st.integers(0, 6))
        c['prefactor'] = draw(st.sampled_from([1, 1, 2, -0.5, 3.25]))
    elif fam == 'legendre':
        c['degree'] = draw(st.integers(0, 8))
        c['domain'] = draw(st.sampled_from([1.0, 1.0, 0.5, 2.0, 3.0, 10.0, 180.0, 1000.0, 1e-3]))     # (angles in degrees, lengths in mm / km)
    elif fam in ('sin', 'cos'):
        c['alpha'] = draw(st.sampled_from([1.0, 2.0, -1.5, 0.5, 3.0, -3.0, 0.0]))
    elif fam in ('gauss', 'periodic_gauss'):
        c['mean'] = fl(-2, 2)
        c['variance'] = draw(st.sampled_from([1.0, 0.5, 0.1, 2.0, 5.0]))
    elif fam == 'bspline':
        n = draw(st.integers(1, 5))
        c['n_intervals'] = n
        c['degree'] = draw(st.integers(1, 3))
    return c


def make_fn(c, rng):
    dim = c['d'] if c['explicit_dim'] else None
    fam, i = c['family'], c['index']
    lo, hi = -1.5, 1.5
    extra = {}
    if fam == 'constant':
        f = tdt.ConstantFunction(i, dimension=dim)
    elif fam == 'identity':
        f = tdt.Identity(i, dimension=dim)
    elif fam == 'monomial':
        f = tdt.Monomial(i, c['exponent'], prefactor=c['prefactor'], dimension=dim)
    elif fam == 'legendre':
        f = tdt.Legendre(i, c['degree'], domain=c['domain'], dimension=dim)
        lo, hi = -c['domain'], c['domain']
    elif fam == 'sin':
        f = tdt.Sin(i, c['alpha'], dimension=dim)
    elif fam == 'cos':
        f = tdt.Cos(i, c['alpha'], dimension=dim)
    elif fam == 'gauss':
        f = tdt.GaussFunction(i, c['mean'], c['variance'], dimension=dim)
    elif fam == 'periodic_gauss':
        f = tdt.PeriodicGaussFunction(i, c['mean'], c['variance'], dimension=dim)
        lo, hi = -3.0, 3.0
    else:
        n = c['n_intervals']
        # (the grid starts at 0, at -2.5 or at 100: a spline is defined by its knots, not relative to the first one)
        knots = np.cumsum(np.concatenate([[[0.0, -2.5, 100.0][c['seed'] % 3]], rng.uniform(0.3, 1.0, n)]))
        coeff = rng.standard_normal(n + c['degree'])
        f = tdt.Bspline(i, knots, c['degree'], coeff, dimension=dim)
        lo, hi = knots[0], knots[-1]
        extra['knots'] = knots
    return f, lo, hi, extra


def points(c, rng, lo, hi, extra):
    x = rng.uniform(-1.5, 1.5, (c['d'], c['m']))
    xi = rng.uniform(lo, hi, c['m'])
    if 'knots' in extra:
        k = extra['knots']
        # inside an interval, at least 0.05 from its ends (intervals are >= 0.3 long)
        j = rng.integers(0, len(k) - 1, c['m'])
        xi = k[j] + 0.05 + rng.uniform(0, 1, c['m']) * (k[j + 1] - k[j] - 0.1)
        if c['seed'] % 3 == 0:
            # ... and the end points of the knot range themselves (the spline is one polynomial piece on either side of them)
            xi[0] = k[0] if c['seed'] % 2 == 0 else k[-1]
    x[c['index'], :] = xi
    if c.get('point_type', 'float').startswith('int'):
        # integer-valued points (handed over with an integer dtype / as python ints); inside every family's domain
        x = rng.integers(-1, 2, x.shape).astype(float) if c['family'] == 'legendre' and c.get('domain', 1.0) < 1.0 else \
            rng.integers(-2, 3, x.shape).astype(float)
        if c['family'] == 'legendre':
            x = np.clip(x, -np.floor(c.get('domain', 1.0)), np.floor(c.get('domain', 1.0)))
    return x


def cstep(fun, x, k, h=1e-30):
    z = x.astype(complex)
    z[k] += 1j * h
    return np.imag(fun(z)) / h


def richardson(fun, x, k):
    def cd(h):
        a, b = x.copy(), x.copy()
        a[k] += h
        b[k] -= h
        return (fun(a) - fun(b)) / (2 * h)
    h = 1e-3
    return (4 * cd(h / 2) - cd(h)) / 3


def body_fn(case):
    rng = np.random.default_rng(case['seed'])
    f, lo, hi, extra = make_fn(case, rng)
    X = points(case, rng, lo, hi, extra)
    d, idx, fam = case['d'], case['index'], case['family']
    lab = {fam}
    if d > 1:
        lab.add('dim>1')
    if not case['explicit_dim']:
        lab.add('lazy_dimension')
    if case.get('mean', 0) != 0 or case.get('alpha', 1.0) != 1.0 or case.get('domain', 1.0) != 1.0 or case.get('prefactor', 1) != 1 \
            or case.get('variance', 1.0) != 1.0:
        lab.add('non_test_parameter')
    spline = fam == 'bspline'
    tol1 = 1e-5 if spline else 1e-8
    dt = case.get('direction_type', 'int')
    K = {'int': int, 'np.int64': np.int64, 'np.intp': np.intp}[dt]
    if dt != 'int':
        lab.add('direction_numpy_integer')

    # evaluation on an array of points == point by point
    vals = np.array([float(f(X[:, j])) for j in range(X.shape[1])])
    arr = np.asarray(f(X))
    require(arr.shape == (X.shape[1],), 'array_eval', 'f(X) has shape %s for %d points' % (arr.shape, X.shape[1]))
    close(arr, vals, 1e-13, 1.0 + np.max(np.abs(vals)), 'array_eval', 'f(X)[j] vs f(X[:, j])')

    # call-order independence: on a fresh object the very first method called may be any of them (objects built without an
    # explicit dimension infer it lazily on first use)
    fc = case.get('first_call', 'call')
    if fc != 'call':
        rng2 = np.random.default_rng(case['seed'])
        fresh, _, _, _ = make_fn(case, rng2)
        x0 = X[:, 0].copy()
        lab.add('first_call_' + fc)
        try:
            if fc == 'gradient':
                got = np.asarray(fresh.gradient(x0), dtype=float)
                want = np.asarray(f.gradient(x0), dtype=float)
            elif fc == 'hessian':
                got = np.asarray(fresh.hessian(x0), dtype=float)
                want = np.asarray(f.hessian(x0), dtype=float)
            elif fc == 'partial':
                got = np.asarray([float(fresh.partial(x0, k)) for k in range(d)])
                want = np.asarray([float(f.partial(x0, k)) for k in range(d)])
            else:
                got = np.asarray([float(fresh.partial2(x0, idx, k)) for k in range(d)])
                want = np.asarray([float(f.partial2(x0, idx, k)) for k in range(d)])
            require(got.shape == want.shape, 'first_call', '%s as the first call on a fresh object returned shape %s, expected %s' % (fc, got.shape, want.shape))
            close(got, want, 1e-13, 1.0 + np.max(np.abs(want)), 'first_call', '%s as the first call on a fresh object' % fc)
        except NotImplementedError:
            pass
    pt = case.get('point_type', 'float')
    if pt != 'float':
        lab.add('point_' + pt)

    def as_given(v):
        # the point in the form the caller hands it over
        if pt == 'int_array':
            return v.astype(np.int64)
        if pt == 'int_list':
            return [int(t) for t in v]
        if pt == 'float_list':
            return [float(t) for t in v]
        return v

    if pt == 'int_array':
        arr_i = np.asarray(f(X.astype(np.int64)))
        close(arr_i, vals, 1e-13, 1.0 + np.max(np.abs(vals)), 'array_eval', 'f(X) on an integer array')
    for j in range(X.shape[1]):
        x = X[:, j].copy()
        xg = as_given(x)
        if pt != 'float':
            g = np.asarray(f.gradient(xg), dtype=float)
            close(np.array(float(f(xg))), np.array(vals[j]), 1e-13, 1.0 + abs(vals[j]), 'array_eval', 'f(x) at a %s point' % pt)
            for k in range(d):
                pk = float(f.partial(xg, k))
                close(np.array(pk), np.array(float(f.partial(x, k))), 1e-13, 1.0 + abs(pk), 'partial_value', 'partial(%d) at a %s point' % (k, pt))
                close(np.array(g[k]), np.array(float(f.partial(x, k))), 1e-13, 1.0 + abs(pk), 'gradient_value', 'gradient[%d] at a %s point' % (k, pt))
            try:
                hh = np.asarray(f.hessian(xg), dtype=float)
                hf = np.asarray(f.hessian(x), dtype=float)
                close(hh, hf, 1e-13, 1.0 + np.max(np.abs(hf)), 'hessian_value', 'hessian at a %s point' % pt)
            except NotImplementedError:
                pass
        g = np.asarray(f.gradient(x), dtype=float)
        require(g.shape == (d,), 'gradient_shape', 'gradient has shape %s' % (g.shape,))
        for k in range(d):
            p = float(f.partial(x, K(k)))
            if k != idx:
                require(p == 0.0, 'foreign_partial', 'partial in foreign coordinate %d is %r' % (k, p))
                want = 0.0
            else:
                want = richardson(lambda z: float(f(z)), x, k) if spline else cstep(f, x, k)
            close(np.array(p), np.array(want), tol1, 1.0 + abs(want), 'partial_value', 'partial(%d) of %s at %s' % (k, fam, x))
            close(np.array(g[k]), np.array(p), 1e-14, 1.0 + abs(p), 'gradient_value', 'gradient[%d] vs partial' % k)
        # second derivatives
        try:
            h = np.asarray(f.hessian(x), dtype=float)
            implemented = True
        except NotImplementedError:
            implemented = False
        if fam in ('periodic_gauss', 'bspline'):
            lab.add('second_implemented' if implemented else 'second_not_implemented')
        else:
            require(implemented, 'partial2_value', 'hessian raised NotImplementedError for %s' % fam)
        if implemented:
            require(h.shape == (d, d), 'hessian_shape', 'hessian has shape %s' % (h.shape,))
            for a in range(d):
                for b in range(d):
                    p2 = float(f.partial2(x, K(a), K(b)))
                    if a == idx and b == idx:
                        want = richardson(lambda z: float(f.partial(z, idx)), x, idx) if spline else cstep(lambda z: f.partial(z, idx), x, idx)
                    else:
                        want = 0.0
                        require(p2 == 0.0, 'foreign_partial', 'partial2(%d,%d) is %r' % (a, b, p2))
                    close(np.array(p2), np.array(want), tol1, 1.0 + abs(want), 'partial2_value', 'partial2(%d,%d) of %s at %s' % (a, b, fam, x))
                    close(np.array(h[a, b]), np.array(p2), 1e-14, 1.0 + abs(p2), 'hessian_value', 'hessian[%d,%d] vs partial2' % (a, b))
    # a parameter re-assigned after construction (f.alpha = ..., a sweep over a parameter with one object): evaluation and all
    # derivatives are those of the function with the parameters the object has now, i.e. those of f
    ALT = {'sin': {'alpha': 0.7}, 'cos': {'alpha': 0.7}, 'monomial': {'exponent': 1, 'prefactor': 2}, 'gauss': {'mean': 0.3, 'variance': 1.5},
           'periodic_gauss': {'mean': 0.3, 'variance': 1.5}, 'legendre': {'degree': 1, 'domain': 2.0}}
    if case.get('reassign') and fam in ALT:
        other = dict(case)
        for key, dv in ALT[fam].items():
            other[key] = case[key] * dv if key in ('prefactor', 'variance', 'domain') else case[key] + dv
        f2, _, _, _ = make_fn(other, np.random.default_rng(case['seed']))
        x0 = X[:, 0].copy()
        float(f2(x0))
        try:
            f2.hessian(x0)          # (the object has been used with its first parameters)
        except NotImplementedError:
            pass
        for key in ALT[fam]:
            setattr(f2, key, case[key])
        close(np.array(float(f2(x0))), np.array(float(f(x0))), 1e-14, 1.0 + abs(float(f(x0))), 'array_eval', 'f(x) after %s were re-assigned' % sorted(ALT[fam]))
        close(np.array(float(f2.partial(x0, idx))), np.array(float(f.partial(x0, idx))), 1e-14, 1.0 + abs(float(f.partial(x0, idx))), 'partial_value',
              'partial after %s were re-assigned' % sorted(ALT[fam]))
        close(np.asarray(f2.gradient(x0), dtype=float), np.asarray(f.gradient(x0), dtype=float), 1e-14, 1.0 + float(np.max(np.abs(f.gradient(x0)))),
              'gradient_value', 'gradient after %s were re-assigned' % sorted(ALT[fam]))
        try:
            want2 = float(f.partial2(x0, idx, idx))
            close(np.array(float(f2.partial2(x0, idx, idx))), np.array(want2), 1e-14, 1.0 + abs(want2), 'partial2_value',
                  'partial2 after %s were re-assigned' % sorted(ALT[fam]))
            hf_ = np.asarray(f.hessian(x0), dtype=float)
            close(np.asarray(f2.hessian(x0), dtype=float), hf_, 1e-14, 1.0 + float(np.max(np.abs(hf_))), 'hessian_value',
                  'hessian after %s were re-assigned' % sorted(ALT[fam]))
        except NotImplementedError:
            pass
        lab.add('parameter_reassigned')

    # results handed out earlier stay what they were: the gradient / Hessian at the first point, kept by the caller while the same
    # function object is evaluated at the other points (and even scribbled on by the caller), still is the derivative at that point
    if X.shape[1] >= 2:
        x1, x2 = X[:, 0].copy(), X[:, 1].copy()
        g1 = f.gradient(x1)
        g1_val = np.array(g1, dtype=float, copy=True)
        try:
            h1 = f.hessian(x1)
            h1_val = np.array(h1, dtype=float, copy=True)
        except NotImplementedError:
            h1 = None
        g2 = f.gradient(x2)
        if isinstance(g2, np.ndarray) and g2.flags.writeable:
            g2 += 1.0                              # the caller owns what it was given
        if h1 is not None:
            h2 = f.hessian(x2)
            if isinstance(h2, np.ndarray) and h2.flags.writeable:
                h2 += 1.0
        require(np.array_equal(np.asarray(g1, dtype=float), g1_val), 'gradient_value', 'the gradient returned for the first point changed when the '
                'function was evaluated at another point (shared output buffer)')
        if h1 is not None:
            require(np.array_equal(np.asarray(h1, dtype=float), h1_val), 'hessian_value', 'the Hessian returned for the first point changed when the '
                    'function was evaluated at another point (shared output buffer)')
        g3 = np.asarray(f.gradient(x1), dtype=float)
        require(np.array_equal(g3, g1_val), 'gradient_value', 'gradient at the first point differs after the caller modified an array returned earlier')
        if h1 is not None:
            h3 = np.asarray(f.hessian(x1), dtype=float)
            require(np.array_equal(h3, h1_val), 'hessian_value', 'Hessian at the first point differs after the caller modified an array returned earlier')
        lab.add('earlier_results_kept')
    if X.shape[1] >= 2 and not case.get('point_type', 'float').startswith('int'):
        # the same point ARRAY, updated in place between two queries (x += step, as an integrator or optimiser does): the second
        # answers must be those for the new content -- compared with the answers for a fresh copy of the array
        xa = X[:, 0].copy()
        step = X[:, 1] - X[:, 0]
        first = (float(f(xa)), np.array(f.gradient(xa), dtype=float, copy=True))
        try:
            f.hessian(xa)
        except NotImplementedError:
            pass
        xa += step
        # (first everything on the updated array itself, only then the reference values on a fresh copy)
        got_g = np.array(f.gradient(xa), dtype=float, copy=True)
        got_p = float(f.partial(xa, idx))
        try:
            got_h = np.array(f.hessian(xa), dtype=float, copy=True)
            got_p2 = float(f.partial2(xa, idx, idx))
        except NotImplementedError:
            got_h = None
        got_v = float(f(xa))
        xb = xa.copy()
        close(np.array(got_v), np.array(float(f(xb))), 1e-14, 1.0 + abs(float(f(xb))), 'array_eval', 'f(x) after x was updated in place (same array object)')
        gb = np.asarray(f.gradient(xb), dtype=float)
        close(got_g, gb, 1e-14, 1.0 + float(np.max(np.abs(gb))), 'gradient_value', 'gradient after the point array was updated in place')
        pb = float(f.partial(xb, idx))
        close(np.array(got_p), np.array(pb), 1e-14, 1.0 + abs(pb), 'partial_value', 'partial after the point array was updated in place')
        if got_h is not None:
            hb = np.asarray(f.hessian(xb), dtype=float)
            close(got_h, hb, 1e-14, 1.0 + float(np.max(np.abs(hb))), 'hessian_value', 'Hessian after the point array was updated in place')
            p2b = float(f.partial2(xb, idx, idx))
            close(np.array(got_p2), np.array(p2b), 1e-14, 1.0 + abs(p2b), 'partial2_value', 'partial2 after the point array was updated in place')
        lab.add('point_array_updated_in_place')
    return lab


def nt(labels):
    return bool({'dim>1', 'non_test_parameter'} & set(labels))


SUBCHECKS = [
    Sub('functions', fn_case(), body_fn, nt, quick=500, thorough=6000, shards_quick=4, classes=FAMILIES + ['dim>1', 'lazy_dimension', 'non_test_parameter', 'point_int_array', 'point_int_list', 'point_float_list', 'first_call_gradient', 'first_call_hessian']),
]
