"""C02 -- contractions and structural rearrangements equal their dense definition."""
import numpy as np
from hypothesis import strategies as st

import scikit_tt.tensor_train as ttm
from scikit_tt.tensor_train import TT
from vt import dense, gen, build
from vt.common import Sub, Violation, require
from vt.build import close, require_consistent

PROPERTY_ID = 'C02'
TOL = 1e-11

RULE = ('Hypothesis draws operand orders (1..4), mode sizes (1..3, size 1 over-weighted), ranks (1..3), dtype, layout, '
        'the contraction mode (4 pairings) and axis count (partial / complete over self / other / both), boundary-rank '
        'matrices, concatenation partners (TT or core list), subsets of modes to diagonalise, placements of (1,1)-modes, '
        'factorizations of mode sizes and merge partitions, and block lists with 0 placeholders; entries come from '
        'default_rng(seed). Oracle: numpy.tensordot / reshape / delta embedding / block placement on independently '
        'contracted dense values, with the documented mode ordering written as an explicit axis permutation. Non-trivial: '
        'size-1 mode, complex data, complete contraction, first-first/last-last pairing, (1,1)-mode at the left end, a 0 '
        'block in the last row/column, or a factorization with a factor 1; distinct = distinct canonical JSON.')
RULE += (' ' + 'Added classes: diag positions as tuple / integer array / counted from the end.')

ASSUMPTIONS = [
    'oracle: numpy.tensordot/reshape on values obtained with vt/dense.py (independent of TT.full)',
    'tensordot: the boundary ranks that the routine requires to be 1 are 1 (documented ValueError otherwise), the other two '
    'may be open except in a complete contraction over both operands; contracted '
    'dimensions of the two operands agree (constructed)',
    'squeeze: at least one mode is not (1,1) and boundary ranks are 1',
    'tt2qtt: every mode has equally many row and column factors whose products are the mode sizes; threshold 0',
    'build_core: at least one block is an ndarray; blocks have equal shape; 0 placeholders are python ints',
]


def _mode_pairs(x, d):
    """(rows..., cols...) -> (m1, n1, m2, n2, ...)"""
    return np.transpose(x, [j for i in range(d) for j in (i, d + i)])


def _rows_cols(x, d):
    """(m1, n1, ..., md, nd) -> (rows..., cols...)"""
    return np.transpose(x, [2 * i for i in range(d)] + [2 * i + 1 for i in range(d)])


# ---------------------------------------------------------------------------------------------------------
# tensordot
# ---------------------------------------------------------------------------------------------------------

MODES = ['last-first', 'last-last', 'first-last', 'first-first']


@st.composite
def tensordot_case(draw):
    a = draw(gen.tt_spec(min_order=1, max_order=4, max_dim=3, max_rank=3))
    da = len(a['rows'])
    db = draw(st.integers(1, 4))
    mode = draw(st.sampled_from(MODES))
    k = draw(st.integers(1, min(da, db)))
    # contracted dimensions of other are copied from self (construction, no rejection)
    sel_a = list(range(da - k, da)) if mode.startswith('last') else list(range(k))
    sel_b = list(range(db - k, db)) if mode.endswith('last') else list(range(k))
    rows = [None] * db
    cols = [None] * db
    for ia, ib in zip(sel_a, sel_b):
        rows[ib] = a['rows'][ia]
        cols[ib] = a['cols'][ia]
    for j in range(db):
        if rows[j] is None:
            rows[j] = draw(gen.SMALL_DIM)
            cols[j] = draw(gen.SMALL_DIM)
    b = draw(gen.tt_spec(rows=rows, cols=cols, kind='given', max_rank=3))
    # the boundary ranks the routine does not require to be 1 may be open (e.g. the u / v factors of TT.svd)
    if draw(st.sampled_from([False, False, True])) and not (k == da and k == db):
        # (for a complete contraction over both operands the orientation of the resulting 1x1-mode core with two open
        # boundary ranks is not documented; that case keeps boundary ranks 1)
        if mode.startswith('last'):
            a['ranks'][0] = draw(st.sampled_from([2, 3]))
        else:
            a['ranks'][-1] = draw(st.sampled_from([2, 3]))
        if mode.endswith('first'):
            b['ranks'][-1] = draw(st.sampled_from([1, 2]))
        else:
            b['ranks'][0] = draw(st.sampled_from([1, 2]))
    return {'a': a, 'b': b, 'mode': mode, 'num_axes': k, 'overwrite': draw(st.booleans())}


def body_tensordot(case):
    a = build.make_tt(case['a'])
    b = build.make_tt(case['b'])
    da, db, k, mode = a.order, b.order, case['num_axes'], case['mode']
    # dense values with the boundary ranks kept as leading / trailing axes: (r0, m1, n1, ..., md, nd, rd)
    Afull = dense.contract(a.cores, keep_bounds=True)
    Bfull = dense.contract(b.cores, keep_bounds=True)
    A = np.transpose(Afull, [0] + [1 + j for i in range(da) for j in (i, da + i)] + [2 * da + 1])
    B = np.transpose(Bfull, [0] + [1 + j for i in range(db) for j in (i, db + i)] + [2 * db + 1])
    scale = dense.scale_of(a.cores) * dense.scale_of(b.cores)
    sel_a = list(range(da - k, da)) if mode.startswith('last') else list(range(k))
    sel_b = list(range(db - k, db)) if mode.endswith('last') else list(range(k))
    rem_a = [i for i in range(da) if i not in sel_a]
    rem_b = [i for i in range(db) if i not in sel_b]
    # the boundary rank next to the contracted block is 1 on both operands (required by the routine): drop it, keep the other
    if mode.startswith('last'):
        A = A[..., 0]                      # axes: r0_a, modes...
        a_bound = 'left'
    else:
        A = A[0]                           # axes: modes..., rd_a
        a_bound = 'right'
    if mode.endswith('first'):
        B = B[0]                           # axes: modes..., rd_b
        b_bound = 'right'
    else:
        B = B[..., 0]                      # axes: r0_b, modes...
        b_bound = 'left'
    off_a = 1 if a_bound == 'left' else 0
    off_b = 1 if b_bound == 'left' else 0
    ax_a = [off_a + x for i in sel_a for x in (2 * i, 2 * i + 1)]
    ax_b = [off_b + x for i in sel_b for x in (2 * i, 2 * i + 1)]
    R = np.tensordot(A, B, axes=(ax_a, ax_b))
    # axes of R: [ra?] rem_a modes [ra?]  then  [rb?] rem_b modes [rb?]
    na = 2 * len(rem_a) + 1
    pos = {}
    cur = 0
    if a_bound == 'left':
        pos['ra'] = cur
        cur += 1
    for i in rem_a:
        pos[('a', i)] = cur
        cur += 2
    if a_bound == 'right':
        pos['ra'] = cur
        cur += 1
    if b_bound == 'left':
        pos['rb'] = cur
        cur += 1
    for i in rem_b:
        pos[('b', i)] = cur
        cur += 2
    if b_bound == 'right':
        pos['rb'] = cur
        cur += 1
    # documented order of the result and the resulting open boundary ranks
    if mode == 'last-first':
        order = [('a', i) for i in rem_a] + [('b', i) for i in rem_b]
        left, right = 'ra', 'rb'
    elif mode == 'last-last':
        order = [('a', i) for i in rem_a] + [('b', i) for i in rem_b[::-1]]
        left, right = 'ra', 'rb'
    elif mode == 'first-last':
        order = [('b', i) for i in rem_b] + [('a', i) for i in rem_a]
        left, right = 'rb', 'ra'
    else:
        order = [('b', i) for i in rem_b[::-1]] + [('a', i) for i in rem_a]
        left, right = 'rb', 'ra'
    perm = [pos[left]] + [x for key in order for x in (pos[key], pos[key] + 1)] + [pos[right]]
    R = np.transpose(R, perm)
    dr = len(order)

    t = a.tensordot(b, k, mode=mode, overwrite=case['overwrite'])
    require_consistent(t, 'tensordot_consistent')
    if case['overwrite']:
        require(t is a, 'tensordot_overwrite', 'overwrite=True did not return self')
    lab = gen.spec_labels(case['a']) | gen.spec_labels(case['b'], 'b:')
    lab.add(mode)
    if R.shape[0] != 1 or R.shape[-1] != 1:
        lab.add('open_bounds')
    got = dense.contract(t.cores, keep_bounds=True)
    if dr == 0:
        lab.add('complete_both')
        require(t.order == 1 and t.row_dims == [1] and t.col_dims == [1], 'tensordot_dims',
                'complete contraction should give a single (1,1) core, got rows %s cols %s' % (t.row_dims, t.col_dims))
        close(got.reshape(R.shape), R, TOL, scale, 'tensordot_value', 'complete contraction')
        return lab
    if k == da:
        lab.add('complete_self')
    elif k == db:
        lab.add('complete_other')
    else:
        lab.add('partial')
    # (r_left, m1, n1, ..., r_right) -> (r_left, rows..., cols..., r_right)
    want = np.transpose(R, [0] + [1 + 2 * i for i in range(dr)] + [2 + 2 * i for i in range(dr)] + [2 * dr + 1])
    require(list(got.shape) == list(want.shape), 'tensordot_dims',
            'mode order/dims: got %s, documented order gives %s' % (got.shape, want.shape))
    close(got, want, TOL, scale, 'tensordot_value', 'tensordot(%s, %d)' % (mode, k))
    return lab


# ---------------------------------------------------------------------------------------------------------
# rank_tensordot / concatenate / rank_transpose
# ---------------------------------------------------------------------------------------------------------

@st.composite
def rank_case(draw):
    a = draw(gen.tt_spec(min_order=1, max_order=4, max_rank=3))
    a['ranks'][0] = draw(st.sampled_from([1, 1, 2, 3]))
    a['ranks'][-1] = draw(st.sampled_from([1, 2, 3]))
    mode = draw(st.sampled_from(['last', 'first']))
    k = draw(st.integers(1, 3))
    # partner for concatenate
    b = draw(gen.tt_spec(min_order=1, max_order=3, max_rank=3))
    b['ranks'][0] = a['ranks'][-1]
    b['ranks'][-1] = draw(st.sampled_from([1, 1, 2]))
    return {'a': a, 'b': b, 'mode': mode, 'k': k, 'mat_cplx': draw(st.booleans()), 'as_list': draw(st.booleans()),
            'overwrite': draw(st.booleans()), 'seed': draw(gen.SEED)}


def body_rank(case):
    rng = np.random.default_rng(case['seed'])
    spec = case['a']
    lab = gen.spec_labels(spec)
    # rank_tensordot
    a = build.make_tt(spec)
    A = dense.contract(a.cores, keep_bounds=True)
    scale = dense.scale_of(a.cores)
    if case['mode'] == 'last':
        m = build.rand_array(rng, (spec['ranks'][-1], case['k']), case['mat_cplx'])
        want = np.tensordot(A, m, axes=([A.ndim - 1], [0]))
    else:
        m = build.rand_array(rng, (case['k'], spec['ranks'][0]), case['mat_cplx'])
        want = np.tensordot(m, A, axes=([1], [0]))
    t = a.rank_tensordot(m, mode=case['mode'], overwrite=case['overwrite'])
    require_consistent(t, 'rank_tensordot_consistent')
    if case['overwrite']:
        require(t is a, 'rank_tensordot_overwrite', 'overwrite=True did not return self')
    close(dense.contract(t.cores, keep_bounds=True), want, TOL, scale * max(np.linalg.norm(m), 1.0), 'rank_tensordot_value',
          'rank_tensordot(%s)' % case['mode'])
    lab.add('rt_' + case['mode'])
    if case['mat_cplx'] != spec['cplx']:
        lab.add('mixed_dtype')

    # concatenate
    a = build.make_tt(spec)
    b = build.make_tt(case['b'])
    B = dense.contract(b.cores, keep_bounds=True)
    want = np.tensordot(A, B, axes=([A.ndim - 1], [0]))
    da, db = a.order, b.order
    # axes now: r0, rows_a, cols_a, rows_b, cols_b, r_end  ->  r0, rows_a, rows_b, cols_a, cols_b, r_end
    perm = [0] + list(range(1, 1 + da)) + list(range(1 + 2 * da, 1 + 2 * da + db)) + list(range(1 + da, 1 + 2 * da)) + \
        list(range(1 + 2 * da + db, 1 + 2 * da + 2 * db)) + [1 + 2 * da + 2 * db]
    want = np.transpose(want, perm)
    other = [c for c in b.cores] if case['as_list'] else b
    c = a.concatenate(other, overwrite=case['overwrite'])
    require_consistent(c, 'concatenate_consistent')
    if case['overwrite']:
        require(c is a, 'concatenate_overwrite', 'overwrite=True did not return self')
    require(c.order == da + db, 'concatenate_order', 'order %d, expected %d' % (c.order, da + db))
    close(dense.contract(c.cores, keep_bounds=True), want, TOL, scale * dense.scale_of(b.cores), 'concatenate_value', 'concatenate')
    lab.add('concat_list' if case['as_list'] else 'concat_tt')

    # rank_transpose
    a = build.make_tt(spec)
    d = a.order
    r = a.rank_transpose(overwrite=case['overwrite'])
    require_consistent(r, 'rank_transpose_consistent')
    if case['overwrite']:
        require(r is a, 'rank_transpose_overwrite', 'overwrite=True did not return self')
    want = np.transpose(A, [2 * d + 1] + list(range(d, 0, -1)) + list(range(2 * d, d, -1)) + [0])
    close(dense.contract(r.cores, keep_bounds=True), want, TOL, scale, 'rank_transpose_value', 'rank_transpose')
    require(r.row_dims == spec['rows'][::-1] and r.col_dims == spec['cols'][::-1] and r.ranks == spec['ranks'][::-1],
            'rank_transpose_dims', 'metadata of rank_transpose')
    if spec['ranks'][0] != 1 or spec['ranks'][-1] != 1:
        lab.add('open_bounds')
    return lab


# ---------------------------------------------------------------------------------------------------------
# diag / squeeze
# ---------------------------------------------------------------------------------------------------------

@st.composite
def diag_case(draw):
    a = draw(gen.tt_spec(min_order=1, max_order=5, kind='vector', max_dim=3, max_rank=3))
    d = len(a['rows'])
    sub = draw(st.lists(st.integers(0, d - 1), unique=True, max_size=d))
    # how the positions are written: plain list, tuple, integer array, or counted from the end (the list addresses the cores the
    # python way)
    return {'a': a, 'diag_list': sub, 'core_scale': [draw(st.integers(0, d - 1)), draw(st.sampled_from([0, 0, 0, -15, -20, 12]))], 'positions_form': draw(st.sampled_from(['list', 'list', 'tuple', 'ndarray', 'negative']))}


def body_diag(case):
    spec = case['a']
    a = build.make_tt(spec)
    d = a.order
    D = sorted(case['diag_list'])
    ck, ce = case.get('core_scale', [0, 0])
    if ce and not spec.get('int_dtype') and a.cores[ck].flags.writeable:
        # the magnitude of the tensor is carried by the other cores: one core has entries of size 1e-15 / 1e-20 / 1e12
        a.cores[ck] = a.cores[ck] * 10.0 ** ce
    x = dense.contract(a.cores).reshape(spec['rows'])
    form = case.get('positions_form', 'list')
    pos = list(case['diag_list'])
    if form == 'negative':
        pos = [p_ - d if k % 2 == 0 else p_ for k, p_ in enumerate(pos)]
    elif form == 'tuple':
        pos = tuple(pos)
    elif form == 'ndarray':
        pos = np.array(pos, dtype=np.int64)
    t = a.diag(pos)
    require_consistent(t, 'diag_consistent')
    want_cols = [spec['rows'][i] if i in D else 1 for i in range(d)]
    require(t.row_dims == spec['rows'] and t.col_dims == want_cols, 'diag_dims',
            'rows %s cols %s, expected rows %s cols %s' % (t.row_dims, t.col_dims, spec['rows'], want_cols))
    want = np.zeros(spec['rows'] + want_cols, dtype=complex)
    for idx in np.ndindex(*spec['rows']):
        cidx = tuple(idx[i] if i in D else 0 for i in range(d))
        want[idx + cidx] = x[idx]
    close(dense.contract(t.cores), want, TOL, dense.scale_of(a.cores), 'diag_value', 'diag(%s)' % D)
    lab = gen.spec_labels(spec)
    if any(spec['rows'][i] == 1 for i in D):
        lab.add('diag_size1')
    if form != 'list' and D:
        lab.add('positions_' + form)
    if ce and not spec.get('int_dtype'):
        lab.add('one_core_of_other_magnitude')
    if not D:
        lab.add('diag_none')
    elif len(D) == d:
        lab.add('diag_all')
    else:
        lab.add('diag_subset')
    return lab


@st.composite
def squeeze_case(draw):
    a = draw(gen.tt_spec(min_order=1, max_order=6, max_dim=3, max_rank=3))
    d = len(a['rows'])
    ones = draw(st.lists(st.booleans(), min_size=d, max_size=d))
    if all(ones):
        ones[draw(st.integers(0, d - 1))] = False
    for i in range(d):
        if ones[i]:
            a['rows'][i] = 1
            a['cols'][i] = 1
        elif a['rows'][i] == 1 and a['cols'][i] == 1:
            a['rows'][i] = 2
    return {'a': a}


def body_squeeze(case):
    spec = case['a']
    a = build.make_tt(spec)
    d = a.order
    keep = [i for i in range(d) if not (spec['rows'][i] == 1 and spec['cols'][i] == 1)]
    x = dense.contract(a.cores)
    want = x.reshape([spec['rows'][i] for i in keep] + [spec['cols'][i] for i in keep])
    t = a.squeeze()
    require_consistent(t, 'squeeze_consistent')
    require(t.row_dims == [spec['rows'][i] for i in keep] and t.col_dims == [spec['cols'][i] for i in keep], 'squeeze_dims',
            'rows %s cols %s' % (t.row_dims, t.col_dims))
    close(dense.contract(t.cores), want, TOL, dense.scale_of(a.cores), 'squeeze_value', 'squeeze')
    lab = gen.spec_labels(spec)
    if keep[0] > 0:
        lab.add('leading_11')
    if keep[-1] < d - 1:
        lab.add('trailing_11')
    if any(keep[j + 1] - keep[j] > 1 for j in range(len(keep) - 1)):
        lab.add('interior_11')
    if len(keep) == d:
        lab.add('nothing_to_squeeze')
    return lab


# ---------------------------------------------------------------------------------------------------------
# tt2qtt / qtt2tt
# ---------------------------------------------------------------------------------------------------------

FACT = st.sampled_from([1, 2, 2, 3])


@st.composite
def qtt_case(draw):
    d = draw(st.integers(1, 3))
    rf, cf = [], []
    vec = draw(st.booleans())
    size = [1]

    def fact():
        # the dense reference must stay small (27^6 entries would be 3 GB: the coverage-guided tier found that corner of the
        # strategy within 400 executions): factors that would push the number of entries beyond 5e4 become 1
        f = draw(FACT)
        if size[0] * f > 50000:
            f = 1
        size[0] *= f
        return f
    for _ in range(d):
        nf = draw(st.integers(1, 3))
        rf.append([fact() for _ in range(nf)])
        cf.append([1] * nf if vec else [fact() for _ in range(nf)])
    rows = [int(np.prod(f)) for f in rf]
    cols = [int(np.prod(f)) for f in cf]
    a = draw(gen.tt_spec(rows=rows, cols=cols, kind='given', max_rank=3))
    return {'a': a, 'row_factors': rf, 'col_factors': cf, 'threshold': draw(st.sampled_from([0, 0, 1e-14, 1e-10])),
            # the same operator in other units: the first core multiplied by 1e-10, 1e-13, 1e6 (the threshold of the split is relative)
            'scale_exp': draw(st.sampled_from([0, 0, 0, -10, -13, 6]))}


def body_qtt(case):
    spec = case['a']
    a = build.make_tt(spec)
    rf, cf = case['row_factors'], case['col_factors']
    rescaled = bool(case.get('scale_exp', 0)) and not spec.get('int_dtype') and a.cores[0].flags.writeable
    if rescaled:
        a.cores[0] = a.cores[0] * 10.0 ** case['scale_exp']
    x = dense.contract(a.cores)
    scale = dense.scale_of(a.cores)
    # a negligible relative threshold only removes numerically zero directions of the split (generic cores: none)
    q = a.tt2qtt([list(f) for f in rf], [list(f) for f in cf], threshold=case.get('threshold', 0)) if case.get('threshold', 0) else \
        a.tt2qtt([list(f) for f in rf], [list(f) for f in cf])
    require_consistent(q, 'tt2qtt_consistent')
    flat_r = [f for fs in rf for f in fs]
    flat_c = [f for fs in cf for f in fs]
    require(q.row_dims == flat_r and q.col_dims == flat_c, 'tt2qtt_dims',
            'rows %s cols %s, expected %s %s' % (q.row_dims, q.col_dims, flat_r, flat_c))
    close(dense.contract(q.cores), x.reshape(flat_r + flat_c), TOL, scale, 'tt2qtt_value', 'tt2qtt')
    back = q.qtt2tt([len(f) for f in rf])
    require_consistent(back, 'qtt2tt_consistent')
    require(back.row_dims == spec['rows'] and back.col_dims == spec['cols'], 'roundtrip_dims',
            'rows %s cols %s' % (back.row_dims, back.col_dims))
    close(dense.contract(back.cores), x, TOL, scale, 'roundtrip_value', 'qtt2tt(tt2qtt(t))')
    lab = gen.spec_labels(spec)
    if any(f == 1 for f in flat_r + flat_c) and not all(f == 1 for f in flat_c):
        lab.add('factor1')
    if any(len(f) == 1 for f in rf):
        lab.add('unsplit_mode')
    if any(len(f) == 3 for f in rf):
        lab.add('three_factors')
    if any(a_ != b_ for a_, b_ in zip(flat_r, flat_c)):
        lab.add('rect_factors')
    if case.get('threshold', 0):
        lab.add('negligible_threshold')
    if rescaled:
        lab.add('rescaled')
    return lab


@st.composite
def merge_case(draw):
    a = draw(gen.tt_spec(min_order=1, max_order=6, max_dim=3, max_rank=3))
    d = len(a['rows'])
    cuts = sorted(draw(st.lists(st.integers(1, max(d - 1, 1)), unique=True, max_size=max(d - 1, 0)))) if d > 1 else []
    bounds = [0] + cuts + [d]
    merge = [bounds[i + 1] - bounds[i] for i in range(len(bounds) - 1)]
    return {'a': a, 'merge': merge}


def body_merge(case):
    spec = case['a']
    a = build.make_tt(spec)
    x = dense.contract(a.cores)
    merge = case['merge']
    t = a.qtt2tt(list(merge))
    require_consistent(t, 'qtt2tt_consistent')
    rows, cols, k = [], [], 0
    for m in merge:
        rows.append(int(np.prod(spec['rows'][k:k + m])))
        cols.append(int(np.prod(spec['cols'][k:k + m])))
        k += m
    require(t.row_dims == rows and t.col_dims == cols, 'qtt2tt_dims', 'rows %s cols %s expected %s %s' % (t.row_dims, t.col_dims, rows, cols))
    close(dense.contract(t.cores), x.reshape(rows + cols), TOL, dense.scale_of(a.cores), 'qtt2tt_value', 'qtt2tt(%s)' % merge)
    lab = gen.spec_labels(spec)
    if max(merge) >= 3:
        lab.add('merge>=3')
    if len(merge) == 1:
        lab.add('merge_all')
    if all(m == 1 for m in merge):
        lab.add('merge_none')
    return lab


# ---------------------------------------------------------------------------------------------------------
# build_core / build_core_vector
# ---------------------------------------------------------------------------------------------------------

@st.composite
def blocks_case(draw):
    form = draw(st.sampled_from(['matrix_list', 'matrix_list', 'vector']))
    r1 = draw(st.integers(1, 3))
    r2 = draw(st.integers(1, 3)) if form == 'matrix_list' else 1
    m = draw(st.integers(1, 3))
    n = draw(st.integers(1, 3))
    one_d = draw(st.sampled_from([False, False, True]))
    kinds = [[draw(st.sampled_from(['real', 'real', 'complex', 'zero'])) for _ in range(r2)] for _ in range(r1)]
    if all(k == 'zero' for row in kinds for k in row):
        kinds[draw(st.integers(0, r1 - 1))][draw(st.integers(0, r2 - 1))] = 'real'
    return {'form': form, 'r1': r1, 'r2': r2, 'm': m, 'n': n, 'one_d': one_d, 'kinds': kinds,
            'iscomplex': draw(st.booleans()), 'seed': draw(gen.SEED)}


def body_blocks(case):
    rng = np.random.default_rng(case['seed'])
    r1, r2, m, n = case['r1'], case['r2'], case['m'], case['n']
    if case['one_d']:
        n = 1
    blocks, want = [], np.zeros((r1, m, n, r2), dtype=complex)
    anyc = False
    for i in range(r1):
        row = []
        for j in range(r2):
            k = case['kinds'][i][j]
            if k == 'zero':
                row.append(0)
                continue
            shape = (m,) if case['one_d'] else (m, n)
            blk = rng.standard_normal(shape)
            if k == 'complex':
                blk = blk + 1j * rng.standard_normal(shape)
                anyc = True
            row.append(blk)
            want[i, :, :, j] = blk.reshape(m, n)
        blocks.append(row)
    lab = {case['form']}
    if case['form'] == 'vector':
        arg = [row[0] for row in blocks]
        if not isinstance(arg[0], np.ndarray) and not isinstance(arg[0], int):
            return lab
    else:
        arg = blocks
    core = ttm.build_core(arg, iscomplex=case['iscomplex'])
    require(isinstance(core, np.ndarray) and core.shape == (r1, m, n, r2), 'build_core_shape',
            'shape %s, expected %s' % (getattr(core, 'shape', None), (r1, m, n, r2)))
    want_c = anyc or case['iscomplex']
    require(np.iscomplexobj(core) == want_c, 'build_core_dtype',
            'dtype %s but complex blocks=%s iscomplex=%s' % (core.dtype, anyc, case['iscomplex']))
    close(core, want, 0.0, 1.0, 'build_core_value', 'build_core blocks')
    if case['form'] == 'vector':
        ft = 'complex' if case['iscomplex'] else 'float'
        core2 = ttm.build_core_vector(arg, ft)
        close(core2, want, 0.0, 1.0, 'build_core_value', 'build_core_vector blocks')
    if anyc:
        lab.add('complex')
    if case['iscomplex']:
        lab.add('iscomplex_flag')
    if case['kinds'][-1][-1] == 'zero':
        lab.add('zero_last_block')
    if any(k == 'zero' for row in case['kinds'] for k in row):
        lab.add('zero_block')
    if case['one_d']:
        lab.add('1d_blocks')
    return lab


def nt(labels):
    keys = {'size1mode', 'mixed_size1', 'complex', 'b:complex', 'b:size1mode', 'complete_both', 'complete_self', 'complete_other',
            'last-last', 'first-first', 'leading_11', 'zero_last_block', 'factor1', 'diag_size1', 'open_bounds', 'order1',
            'iscomplex_flag', 'merge>=3', 'interior_11', 'trailing_11', 'mixed_dtype'}
    return bool(keys & set(labels))


SUBCHECKS = [
    Sub('tensordot', tensordot_case(), body_tensordot, nt, quick=1200, thorough=12000,
        classes=MODES + ['partial', 'complete_self', 'complete_other', 'complete_both', 'complex', 'size1mode', 'open_bounds']),
    Sub('rank_ops', rank_case(), body_rank, nt, quick=800, thorough=8000,
        classes=['rt_last', 'rt_first', 'concat_list', 'concat_tt', 'open_bounds', 'complex']),
    Sub('diag', diag_case(), body_diag, nt, quick=800, thorough=8000,
        classes=['diag_size1', 'diag_subset', 'diag_all', 'complex']),
    Sub('squeeze', squeeze_case(), body_squeeze, nt, quick=800, thorough=8000,
        classes=['leading_11', 'trailing_11', 'interior_11', 'nothing_to_squeeze', 'complex']),
    Sub('qtt_roundtrip', qtt_case(), body_qtt, nt, quick=800, thorough=8000,
        classes=['factor1', 'unsplit_mode', 'three_factors', 'rect_factors', 'complex']),
    Sub('qtt2tt', merge_case(), body_merge, nt, quick=800, thorough=8000, classes=['merge>=3', 'merge_all', 'merge_none']),
    Sub('build_core', blocks_case(), body_blocks, nt, quick=800, thorough=8000,
        classes=['matrix_list', 'vector', 'complex', 'iscomplex_flag', 'zero_last_block', '1d_blocks']),
]
