"""C15 -- transformed data tensors equal the tensor of basis-function products."""
import itertools
import numpy as np
from hypothesis import strategies as st, assume

import scikit_tt.data_driven.transform as tdt
from vt import dense, gen, build
from vt.common import Sub, Violation, require
from vt.build import close, require_consistent

PROPERTY_ID = 'C15'

RULE = ('Hypothesis draws the state dimension d (1..4), snapshot count m (1..8, optionally with a duplicated snapshot), the '
        'number of modes p (1..4) with 1..4 basis functions each, mixed over all differentiable families (constant, identity, '
        'monomial, Legendre, sin, cos, Gauss, periodic Gauss) with random parameters and coordinates, and over user-defined '
        'Function subclasses R^d -> R that reduce over the whole point (sum of squares, radial Gauss, pair product, max-abs); scalar function lists '
        'and add_one for the coordinate-/function-major variants; every admissible single_core index; a second data set for '
        'the Gram matrix (independent arrays, the same array twice, and overlapping lagged views of one trajectory); HOCUR with ranks >= m (hence >= the true ranks; as a number or a list, the list optionally re-used from an earlier call on rank-one data), repeats 1..3, multiplier 2..10. Oracle: the explicit '
        'loop Psi[i_1..i_p, j] = prod_k phi_k^{i_k}(x_j). Non-trivial: m = 1, a mode with a single function, mixed families, '
        'duplicated snapshots, add_one = False, or d = 1.')
RULE += (' ' + 'Added classes: basis objects used before on another data matrix, coordinate-function bases on data of size 1e-9 ... 1e3 for HOCUR.')

RULE += (' ' + 'Sub-check hocur_many_modes: 5 ... 64 modes of 1..3 functions with values in [0.48, 1] (constant, cos, Gauss, periodic Gauss), '
         'm = 1..4 snapshots (optionally one duplicated), ranks m ... m+3; the dense tensor (up to 3^64 entries, beyond int64) is never formed: twelve probes per case '
         '(single entries, positive rank-one contractions, partial sums) of the returned cores against prod_k w_k . v_k[:, j]; non-trivial = 13 or more modes.')

ASSUMPTIONS = [
    'oracle: explicit Python loop over multi-indices and snapshots evaluating the basis functions point-wise',
    'data entries in [-1, 1]; basis-function values are O(1)',
    'HOCUR: requested ranks >= number of snapshots (an upper bound of every TT rank of the transformed data tensor), or m - 1 on data with a repeated snapshot (class of the known finding F29); '
    'reconstruction compared at 1e-7 relative; cases whose unfoldings have singular-value ratios in (1e-13, 1e-4), or whose '
    'entries span more than nine orders of magnitude (or vanish exactly), are discarded (ill-conditioned cross approximation: a '
    'sampled cross can be numerically zero)',
    'HOCUR with many modes: the same guards evaluated in closed form (singular values of every unfolding from the Hadamard product of the per-mode Gram matrices: '
    'ratios >= 1e-3; entry range prod_k min/max |v_k| within nine decades); error model of the low-order class (entry-wise 1e-7 of the largest entry), '
    'probes compared at 1e-6 max|Psi| prod_k ||w_k||_1 (measured on the unchanged tree: 3e-14)',
]

FAMS = ['constant', 'identity', 'monomial', 'legendre', 'sin', 'cos', 'gauss', 'periodic_gauss']
# user-defined basis functions R^d -> R ("all implemented basis functions should inherit from Function"): written the
# way the documentation defines them, as maps of ONE point t (a vector of length d) to a number; they reduce over the
# whole vector without an axis argument, so they are only correct when the library evaluates them point by point
USER_FAMS = ['u_norm2', 'u_radial', 'u_pair', 'u_maxabs', 'u_rbf']
RBF_CENTRES = [[0.3, -0.2, 0.5, 0.1, -0.4, 0.2], [-0.6, 0.4, 0.1, -0.3, 0.5, 0.0], [0.0, 0.8, -0.7, 0.2, 0.1, -0.5]]      # (array-valued parameter of the radial basis functions)


class UserFunction(tdt.Function):
    def __init__(self, kind, index=0, centre=0):
        super().__init__()
        self.kind, self.index = kind, index
        self.centre = np.array(RBF_CENTRES[centre % 3])          # functions of one class that differ in an ARRAY-valued attribute only

    def __call__(self, t):
        self.check_call_input(t)
        t = np.asarray(t, dtype=float)
        if self.kind == 'u_norm2':
            return float(np.sum(t ** 2))
        if self.kind == 'u_radial':
            return float(np.exp(-0.5 * np.linalg.norm(t) ** 2))
        if self.kind == 'u_pair':
            return float(t[self.index] * t[(self.index + 1) % len(t)])
        if self.kind == 'u_rbf':
            return float(np.exp(-np.sum((t - self.centre[:len(t)]) ** 2)))
        return float(np.max(np.abs(t)))



def fn_spec(draw, d, user=True, indicator=False):
    fam = draw(st.sampled_from(FAMS + (USER_FAMS[:] if user else []) + (['indicator', 'indicator'] if indicator else [])))
    s = {'family': fam, 'index': draw(st.integers(0, d - 1))}
    if fam == 'indicator':
        a = draw(st.sampled_from([-1.0, -0.5, 0.0, -2.0]))
        s['a'], s['b'] = a, a + draw(st.sampled_from([0.5, 1.0, 2.0, 4.0]))
    if fam == 'u_rbf':
        s['centre'] = draw(st.integers(0, 2))
        s['index'] = 0
    if fam == 'monomial':
        s['exponent'] = draw(st.integers(0, 4))
    elif fam == 'legendre':
        s['degree'] = draw(st.integers(0, 4))
    elif fam in ('sin', 'cos'):
        s['alpha'] = draw(st.sampled_from([1.0, 2.0, 0.5, -1.5]))
    elif fam in ('gauss', 'periodic_gauss'):
        s['mean'] = draw(st.sampled_from([0.0, 0.5, -0.7]))
        s['variance'] = draw(st.sampled_from([1.0, 0.5, 2.0]))
    return s


def make_fn(s):
    fam, i = s['family'], s['index']
    if fam in USER_FAMS:
        return UserFunction(fam, i, s.get('centre', 0))
    if fam == 'indicator':
        return tdt.IndicatorFunction(i, s['a'], s['b'])
    if fam == 'constant':
        return tdt.ConstantFunction(i)
    if fam == 'identity':
        return tdt.Identity(i)
    if fam == 'monomial':
        return tdt.Monomial(i, s['exponent'])
    if fam == 'legendre':
        return tdt.Legendre(i, s['degree'])
    if fam == 'sin':
        return tdt.Sin(i, s['alpha'])
    if fam == 'cos':
        return tdt.Cos(i, s['alpha'])
    if fam == 'gauss':
        return tdt.GaussFunction(i, s['mean'], s['variance'])
    return tdt.PeriodicGaussFunction(i, s['mean'], s['variance'])


def ref_value(s, x):
    """independent evaluation of a basis function at a single point x (vector)"""
    from numpy.polynomial import legendre as L
    fam, t = s['family'], x[s['index']]
    if fam == 'u_norm2':
        return sum(float(v) ** 2 for v in x)
    if fam == 'u_radial':
        return float(np.exp(-0.5 * sum(float(v) ** 2 for v in x)))
    if fam == 'u_pair':
        return float(x[s['index']]) * float(x[(s['index'] + 1) % len(x)])
    if fam == 'u_maxabs':
        return max(abs(float(v)) for v in x)
    if fam == 'u_rbf':
        cc = RBF_CENTRES[s.get('centre', 0) % 3]
        return float(np.exp(-sum((float(v) - cc[j]) ** 2 for j, v in enumerate(x))))
    if fam == 'indicator':
        return 1.0 if (s['a'] <= t < s['b']) else 0.0
    if fam == 'constant':
        return 1.0
    if fam == 'identity':
        return t
    if fam == 'monomial':
        return t ** s['exponent']
    if fam == 'legendre':
        c = np.zeros(s['degree'] + 1)
        c[-1] = 1
        return L.legval(t, c)
    if fam == 'sin':
        return np.sin(s['alpha'] * t)
    if fam == 'cos':
        return np.cos(s['alpha'] * t)
    if fam == 'gauss':
        return np.exp(-0.5 * (t - s['mean']) ** 2 / s['variance'])
    return np.exp(-0.5 * np.sin(0.5 * (t - s['mean'])) ** 2 / s['variance'])


def data(case, key='seed', m=None):
    rng = np.random.default_rng(case[key])
    m = m or case['m']
    form = case.get('data_form', 'float')
    if form == 'int':
        x = rng.integers(-2, 3, (case['d'], m)).astype(np.int64)       # integer-typed snapshot matrix
    elif form == 'strided':
        big = rng.uniform(-1, 1, (case['d'], 2 * m))
        x = big[:, ::2]                                                  # non-contiguous view
    elif form == 'fortran':
        x = np.asfortranarray(rng.uniform(-1, 1, (case['d'], m)))
    else:
        x = rng.uniform(-1, 1, (case['d'], m))
    if case.get('duplicate') and m >= 2:
        if case.get('dup_pos') == 'second' and m >= 3:
            x[:, 1] = x[:, 0]                # (the repeated snapshot sits at the start of the data)
        else:
            x[:, -1] = x[:, 0]
    if form == 'readonly':
        x.setflags(write=False)        # e.g. a memory-mapped trajectory: any hidden write into the caller's data raises
    return x


DATA_FORM = st.sampled_from(['float', 'float', 'float', 'int', 'strided', 'fortran', 'readonly'])


def psi_ref(values):
    """values[k] = (n_k x m) matrix of function values of mode k  ->  array (n_1,...,n_p, m)"""
    m = values[0].shape[1]
    out = np.zeros([v.shape[0] for v in values] + [m])
    for j in range(m):
        t = np.ones(())
        for v in values:
            t = np.multiply.outer(t, v[:, j])
        out[..., j] = t
    return out


@st.composite
def general_case(draw):
    d = draw(st.integers(1, 4))
    m = draw(st.sampled_from([1, 2, 3, 3, 5, 8]))
    p = draw(st.integers(1, 4))
    phi = [[fn_spec(draw, d, indicator=True) for _ in range(draw(st.sampled_from([1, 2, 2, 3, 4])))] for _ in range(p)]
    if draw(st.sampled_from([False, False, True])):
        # a mode made of indicator functions only, with overlapping intervals (a coarse bin and finer ones)
        k = draw(st.integers(0, p - 1))
        i0 = draw(st.integers(0, d - 1))
        phi[k] = [{'family': 'indicator', 'index': i0, 'a': -2.0, 'b': 2.0}] + \
                 [{'family': 'indicator', 'index': i0, 'a': a_, 'b': a_ + w_} for a_, w_ in
                  draw(st.lists(st.tuples(st.sampled_from([-1.0, -0.5, 0.0]), st.sampled_from([0.5, 1.0, 2.0])), min_size=1, max_size=3))]
    return {'d': d, 'm': m, 'phi': phi, 'seed': draw(gen.SEED), 'seed2': draw(gen.SEED), 'm2': draw(st.integers(1, 6)),
            'duplicate': draw(st.sampled_from([False, False, True])), 'lag': draw(st.sampled_from([0, 1, 1, 2, 3])), 'data_form': draw(DATA_FORM)}


def general_labels(case):
    lab = set()
    if case['m'] == 1:
        lab.add('m1')
    if case['d'] == 1:
        lab.add('d1')
    if any(len(f) == 1 for f in case['phi']):
        lab.add('single_function_mode')
    if len({s['family'] for f in case['phi'] for s in f}) > 1:
        lab.add('mixed_families')
    if any(s['family'] in USER_FAMS for f in case['phi'] for s in f):
        lab.add('user_defined_function')
    if any(all(s['family'] == 'indicator' for s in f) and len(f) >= 2 for f in case['phi']):
        lab.add('indicator_only_mode')
    if case.get('duplicate') and case['m'] >= 2:
        lab.add('duplicated_snapshot')
    if len(case['phi']) == 1:
        lab.add('p1')
    if case.get('lag') and case['m'] >= 2:
        lab.add('lagged_views')
    if case.get('data_form', 'float') != 'float':
        lab.add('data_' + case['data_form'])
    return lab


def body_general(case):
    x = data(case)
    phi = [[make_fn(s) for s in f] for f in case['phi']]
    vals = [np.array([[ref_value(s, x[:, j]) for j in range(case['m'])] for s in f]) for f in case['phi']]
    want = psi_ref(vals)
    p = len(phi)
    other_d = case['seed'] % 4 == 0
    if other_d:
        # the same basis-function objects were used before on a data set with more coordinates (they only read coordinates that exist
        # in both): an object that fixed its dimension lazily at first use must still accept the data of this call
        try:
            tdt.basis_decomposition(np.vstack([np.asarray(x, dtype=float), 0.3 * np.ones((2, case['m']))]), phi)
        except Exception:     # noqa -- history only
            pass
    t = tdt.basis_decomposition(x, phi)
    require_consistent(t, 'consistent')
    n = [len(f) for f in phi]
    require(t.order == p + 1 and t.row_dims == n + [case['m']] and t.col_dims == [1] * (p + 1), 'dims',
            'rows %s cols %s' % (t.row_dims, t.col_dims))
    close(dense.contract(t.cores).reshape(n + [case['m']]), want, 1e-12, 1.0 + np.max(np.abs(want)), 'psi_value', 'basis_decomposition')
    for k in range(p):
        c = tdt.basis_decomposition(x, phi, single_core=k)
        require(isinstance(c, np.ndarray) and c.shape == t.cores[k].shape and np.array_equal(c, t.cores[k]), 'single_core',
                'single_core=%d differs from the core of the full construction' % k)
    # Gram matrix of two data sets; also as two overlapping (time-lagged) views of one trajectory
    x2 = data(case, 'seed2', case['m2'])
    if case.get('lag') and case['m'] >= 2:
        traj = np.concatenate([x, data(case, 'seed2', case['lag'])], axis=1)
        xa, xb = traj[:, :case['m']], traj[:, case['lag']:case['lag'] + case['m']]
        ga = tdt.gram(xa, xb, phi)
        va = [np.array([[ref_value(s_, xa[:, j]) for j in range(case['m'])] for s_ in f]) for f in case['phi']]
        vb = [np.array([[ref_value(s_, xb[:, j]) for j in range(case['m'])] for s_ in f]) for f in case['phi']]
        Ga = psi_ref(va).reshape(-1, case['m']).T @ psi_ref(vb).reshape(-1, case['m'])
        close(np.asarray(ga), Ga, 1e-11, 1.0 + np.max(np.abs(Ga)), 'gram_value', 'gram of two lagged views of one trajectory')
        gs = tdt.gram(x, x, phi)
        Gs = want.reshape(-1, case['m']).T @ want.reshape(-1, case['m'])
        close(np.asarray(gs), Gs, 1e-11, 1.0 + np.max(np.abs(Gs)), 'gram_value', 'gram(x, x)')
    g = tdt.gram(x, x2, phi)
    vals2 = [np.array([[ref_value(s, x2[:, j]) for j in range(case['m2'])] for s in f]) for f in case['phi']]
    want2 = psi_ref(vals2)
    G = want.reshape(-1, case['m']).T @ want2.reshape(-1, case['m2'])
    close(np.asarray(g), G, 1e-11, 1.0 + np.max(np.abs(G)), 'gram_value', 'gram(x1, x2)')
    lab = general_labels(case)
    if x.flags.writeable and x.dtype.kind == 'f' and case['seed'] % 2 == 0:
        # the next batch is written into the same data array (and the same function objects are used again): the constructions
        # describe the data the array holds now
        x *= -0.5
        vals3 = [np.array([[ref_value(s, x[:, j]) for j in range(case['m'])] for s in f]) for f in case['phi']]
        want3 = psi_ref(vals3)
        t3 = tdt.basis_decomposition(x, phi)
        close(dense.contract(t3.cores).reshape(n + [case['m']]), want3, 1e-12, 1.0 + np.max(np.abs(want3)), 'psi_value',
              'basis_decomposition after the data array was overwritten in place')
        g3 = tdt.gram(x, x, phi)
        G3 = want3.reshape(-1, case['m']).T @ want3.reshape(-1, case['m'])
        close(np.asarray(g3), G3, 1e-11, 1.0 + np.max(np.abs(G3)), 'gram_value', 'gram after the data array was overwritten in place')
        lab.add('data_overwritten_in_place')
    return lab


# ---------------------------------------------------------------------------------------------------------
# coordinate-major / function-major (scalar function lists)
# ---------------------------------------------------------------------------------------------------------

SCALAR = ['one', 'id', 'sq', 'cube', 'sin', 'cos', 'exp', 'relu', 'clip']
# 'relu' / 'clip' are ordinary python functions with a branch that returns an int literal: the return TYPE depends on the argument
SCALAR_F = {'one': lambda t: 1.0, 'id': lambda t: t, 'sq': lambda t: t ** 2, 'cube': lambda t: t ** 3, 'sin': lambda t: np.sin(t),
            'cos': lambda t: np.cos(t), 'exp': lambda t: np.exp(0.5 * t), 'relu': lambda t: t if t > 0 else 0,
            'clip': lambda t: 1 if t > 0.5 else (t if t > -0.5 else -1)}


@st.composite
def major_case(draw):
    d = draw(st.integers(1, 4))
    m = draw(st.sampled_from([1, 2, 3, 5, 8]))
    p = draw(st.integers(1, 4))
    return {'d': d, 'm': m, 'phi': [draw(st.sampled_from(SCALAR)) for _ in range(p)], 'add_one': draw(st.booleans()),
            'seed': draw(gen.SEED), 'duplicate': draw(st.sampled_from([False, False, True])), 'data_form': draw(DATA_FORM)}


def body_major(case):
    x = data(case)
    d, m = case['d'], case['m']
    names = case['phi']
    p = len(names)
    phi = [SCALAR_F[k] for k in names]
    lab = set()
    # coordinate-major: mode i = coordinate i, entries phi_k(x[i, j])
    vals = [np.array([[SCALAR_F[k](x[i, j]) for j in range(m)] for k in names]) for i in range(d)]
    want = psi_ref(vals)
    t = tdt.coordinate_major(x, phi)
    require_consistent(t, 'consistent')
    require(t.row_dims == [p] * d + [m] and t.col_dims == [1] * (d + 1), 'dims', 'coordinate_major rows %s' % t.row_dims)
    close(dense.contract(t.cores).reshape([p] * d + [m]), want, 1e-12, 1.0 + np.max(np.abs(want)), 'coordinate_major_value', 'coordinate_major')
    for k in range(d):
        c = tdt.coordinate_major(x, phi, single_core=k)
        require(isinstance(c, np.ndarray) and c.shape == t.cores[k].shape and np.array_equal(c, t.cores[k]), 'single_core',
                'coordinate_major single_core=%d' % k)
    # function-major: mode i = function i, entries [1,] phi_i(x[k, j]) over coordinates k
    ao = case['add_one']
    vals = []
    for k in names:
        v = np.array([[SCALAR_F[k](x[c, j]) for j in range(m)] for c in range(d)])
        if ao:
            v = np.vstack([np.ones((1, m)), v])
        vals.append(v)
    want = psi_ref(vals)
    t = tdt.function_major(x, phi, add_one=ao)
    require_consistent(t, 'consistent')
    n = d + (1 if ao else 0)
    require(t.row_dims == [n] * p + [m] and t.col_dims == [1] * (p + 1), 'dims', 'function_major rows %s' % t.row_dims)
    close(dense.contract(t.cores).reshape([n] * p + [m]), want, 1e-12, 1.0 + np.max(np.abs(want)), 'function_major_value', 'function_major')
    for k in range(p):
        c = tdt.function_major(x, phi, add_one=ao, single_core=k)
        require(isinstance(c, np.ndarray) and c.shape == t.cores[k].shape and np.array_equal(c, t.cores[k]), 'single_core',
                'function_major single_core=%d' % k)
    if m == 1:
        lab.add('m1')
    if d == 1:
        lab.add('d1')
    if not ao:
        lab.add('add_one_false')
    if p == 1:
        lab.add('p1')
    if case['duplicate'] and m >= 2:
        lab.add('duplicated_snapshot')
    if len(set(names)) > 1:
        lab.add('mixed_families')
    if case.get('data_form', 'float') != 'float':
        lab.add('data_' + case['data_form'])
    return lab


# ---------------------------------------------------------------------------------------------------------
# HOCUR
# ---------------------------------------------------------------------------------------------------------

@st.composite
def hocur_case(draw):
    d = draw(st.integers(1, 3))
    m = draw(st.sampled_from([1, 2, 3, 4, 6]))
    p = draw(st.integers(1, 4))
    phi = [[fn_spec(draw, d) for _ in range(draw(st.sampled_from([1, 2, 3, 3])))] for _ in range(p)]
    x_scale_exp = 0
    if d >= 2 and p <= 3 and draw(st.sampled_from([False, False, False, False, True])):
        # coordinate functions only: the tensor is homogeneous of degree p in the data, so data in other units (1e-9, 1e-7, 1e3) give
        # the same tensor up to a factor (1e-27 ... 1e9) -- requested ranks >= true ranks means the same in every unit
        phi = [[{'family': 'identity', 'index': i} for i in draw(st.lists(st.integers(0, d - 1), min_size=2, max_size=d, unique=True))] for _ in range(p)]
        x_scale_exp = draw(st.sampled_from([-9, -7, 3, 0]))
    dup_ = draw(st.sampled_from([False, False, True]))
    zero_ = draw(st.sampled_from([False] * 9 + [True]))
    return {'d': d, 'm': m, 'phi': phi, 'seed': draw(gen.SEED), 'duplicate': dup_, 'x_scale_exp': x_scale_exp,
            'ranks_extra': draw(st.integers(0, 3)), 'repeats': draw(st.integers(1, 3)), 'multiplier': draw(st.sampled_from([2, 3, 10])),
            'ranks_list': draw(st.booleans()), 'reuse_ranks': draw(st.booleans()),
            # with a repeated snapshot every TT rank is at most m - 1: requested ranks m - 1 are still "at least the true ranks"
            # (known finding F29: the unchanged tree collapses to lower ranks there; the class is generated so that the finding is met and
            # counted, failures inside it are attributed to F29)
            'dup_pos': draw(st.sampled_from(['last', 'second'])),
            'ranks_below_m': bool(dup_ and m >= 3 and not zero_ and draw(st.sampled_from([False, False, False, True]))),
            # one data entry exactly 0 (known finding F28: the cross approximation of the unchanged tree fails on tensors with exact
            # zeros; the class is generated so that the finding is met and counted, failures inside it are attributed to F28)
            'exact_zero': zero_,
            'data_form': draw(st.sampled_from(['float', 'float', 'strided', 'fortran', 'readonly']))}


def body_hocur(case):
    x = data(case)
    rescaled = bool(case.get('x_scale_exp', 0)) and case.get('data_form', 'float') == 'float'
    if rescaled:
        x = np.asarray(x, dtype=float) * 10.0 ** case['x_scale_exp']
    onezero = bool(case.get('exact_zero')) and case.get('data_form', 'float') == 'float' and case['m'] >= 2
    if onezero:
        x = np.array(x, dtype=float)
        x[case['seed'] % x.shape[0], (case['seed'] // 5) % case['m']] = 0.0
    phi = [[make_fn(s) for s in f] for f in case['phi']]
    vals = [np.array([[ref_value(s, x[:, j]) for j in range(case['m'])] for s in f]) for f in case['phi']]
    want = psi_ref(vals)
    p = len(phi)
    # conditioning guard: the cross approximation inverts sub-matrices of the unfoldings, so singular values that are
    # neither numerically zero (exact rank deficiency) nor well separated from zero make the result ill-conditioned
    nn = [len(f) for f in phi]
    for k in range(1, p + 1):
        sv = np.linalg.svd(want.reshape(int(np.prod(nn[:k])), -1), compute_uv=False)
        assume(sv[0] > 0 and not np.any((sv > 1e-13 * sv[0]) & (sv < 1e-4 * sv[0])))
    # ... and it starts from a few sampled fibres: entries 1e-16 next to entries of size one (x = 7e-4 under x^4 times x) make a
    # sampled cross numerically zero although every unfolding has one clean singular value (found by the thorough tier)
    nzw_ = np.abs(want[want != 0]) if onezero else np.abs(want)
    assume(nzw_.size > 0 and float(np.min(nzw_)) > 1e-9 * float(np.max(np.abs(want))))
    if not onezero:
        assume(not case.get('exact_zero'))          # (the flag without its precondition is not a case of the class)
    r = case['m'] + case['ranks_extra']
    below = bool(case.get('ranks_below_m')) and bool(case.get('duplicate')) and case['m'] >= 3 and not onezero
    if below:
        r = case['m'] - 1
    ranks = [1] + [r] * p + [1] if case['ranks_list'] else r
    if case['ranks_list'] and case.get('reuse_ranks') and case['m'] >= 2:
        # the same list object of requested ranks is used for an earlier call on data of rank one (all snapshots equal):
        # the request "ranks >= true ranks" of the second call is the caller's list, whatever the first call adapted
        x1 = np.repeat(x[:, :1], case['m'], axis=1)
        tdt.hocur(x1, phi, ranks, repeats=case['repeats'], multiplier=case['multiplier'], progress=False)
    if case['seed'] % 3 == 0 and case['m'] >= 2:
        # the same basis-function objects have been used before on another data matrix (snapshots in reverse order, rescaled)
        try:
            tdt.hocur(np.array(np.asarray(x)[:, ::-1], dtype=float) * 0.75, phi, case['m'] + case['ranks_extra'], repeats=1, multiplier=case['multiplier'], progress=False)
        except Exception:     # noqa -- history only, its data are not guarded
            pass
    t = tdt.hocur(x, phi, ranks, repeats=case['repeats'], multiplier=case['multiplier'], progress=False)
    require_consistent(t, 'consistent')
    n = [len(f) for f in phi]
    require(t.row_dims == n + [case['m']] and t.col_dims == [1] * (p + 1), 'dims', 'hocur rows %s' % t.row_dims)
    close(dense.contract(t.cores).reshape(n + [case['m']]), want, 1e-7, (0.0 if rescaled else 1e-3) + np.max(np.abs(want)), 'hocur_value', 'hocur reconstruction')
    lab = general_labels(case)
    if case['ranks_list'] and case.get('reuse_ranks') and case['m'] >= 2:
        lab.add('ranks_list_reused')
    if case['seed'] % 3 == 0 and case['m'] >= 2:
        lab.add('basis_used_before')
    if rescaled:
        lab.add('rescaled_data')
    if onezero:
        lab.add('exact_zero_in_data')
    lab.add('repeats%d' % case['repeats'])
    return lab


# ---------------------------------------------------------------------------------------------------------
# HOCUR on tensors of high order (dense tensor not representable: 5 ... 64 modes, up to 3^64 entries)
# ---------------------------------------------------------------------------------------------------------
# Oracle without the dense tensor: Psi = sum_j (x)_k v_k[:, j] (x) e_j with v_k[i, j] = phi_k^i(x_j), hence
#   single entries           Psi[i_1..i_p, j]       = prod_k v_k[i_k, j]
#   rank-one contractions    <Psi, w_1 x ... x w_p> = ( prod_k w_k . v_k[:, j] )_j
# Both are compared with the same contractions of the returned cores.  Error model (the one of the low-order class): the
# reconstruction is accurate entry-wise to 1e-7 of the largest entry, so an entry may deviate by 1e-7 max|Psi| and a rank-one
# contraction by 1e-7 max|Psi| prod_k ||w_k||_1; the check allows ten times that.  The conditioning guards of the low-order class are
# evaluated in closed form: the singular values of unfolding k are those of A_k diag(nb) (A_k^T A_k = Hadamard product of the
# per-mode Gram matrices of the first k modes, nb_j = norm of the remaining factors of snapshot j), the entry range is
# prod_k min_i |v_k[i, j]| ... prod_k max_i |v_k[i, j]|.

NEAR_ONE = [{'family': 'constant'}, {'family': 'cos', 'alpha': 0.5}, {'family': 'gauss', 'mean': 0.0, 'variance': 2.0},
            {'family': 'periodic_gauss', 'mean': 0.5, 'variance': 2.0}, {'family': 'cos', 'alpha': 1.0},
            {'family': 'gauss', 'mean': 0.5, 'variance': 2.0}, {'family': 'legendre', 'degree': 0}, {'family': 'monomial', 'exponent': 0}]


@st.composite
def hocur_many_case(draw):
    d = draw(st.integers(1, 4))
    m = draw(st.sampled_from([1, 2, 2, 3, 3, 4]))
    p = draw(st.sampled_from([5, 8, 13, 21, 30, 39, 40, 41, 45, 52, 64]))
    phi = []
    nmin = draw(st.sampled_from([1, 2, 3]))          # (all modes of size 3: 3^40 entries exceed 2^63)
    for _ in range(p):
        f = []
        for _ in range(draw(st.integers(nmin, 3))):
            s_ = dict(draw(st.sampled_from(NEAR_ONE)))
            s_['index'] = draw(st.integers(0, d - 1))
            f.append(s_)
        phi.append(f)
    return {'d': d, 'm': m, 'phi': phi, 'seed': draw(gen.SEED), 'duplicate': draw(st.sampled_from([False, False, False, True])),
            'ranks_extra': draw(st.integers(0, 3)), 'repeats': draw(st.integers(1, 3)), 'multiplier': draw(st.sampled_from([2, 3, 10])),
            'ranks_list': draw(st.booleans()), 'data_form': draw(st.sampled_from(['float', 'float', 'strided', 'fortran', 'readonly']))}


def _core_contract(cores, vectors):
    """<T, w_1 x ... x w_p x e_j>_j from the cores (r, n, 1, r') of a train whose last mode is the snapshot index"""
    left = np.ones((1,))
    for c, w in zip(cores[:-1], vectors):
        left = np.einsum('a,anb,n->b', left, np.asarray(c)[:, :, 0, :], w)
    return np.einsum('a,aj->j', left, np.asarray(cores[-1])[:, :, 0, 0])


def body_hocur_many(case):
    x = data(case)
    m, p = case['m'], len(case['phi'])
    phi = [[make_fn(s) for s in f] for f in case['phi']]
    vals = [np.array([[ref_value(s, x[:, j]) for j in range(m)] for s in f], dtype=float) for f in case['phi']]
    n = [len(f) for f in phi]
    dup = bool(case.get('duplicate')) and m >= 2
    # closed-form guards (see the header of this section); with a duplicated snapshot the two equal terms are merged first
    cols = list(range(m - 1)) if dup else list(range(m))
    wgt = np.ones(len(cols))
    if dup:
        wgt[0] = np.sqrt(2.0)               # a (x) (b_0 + b_{m-1}),  b_0 _|_ b_{m-1} of equal norm
    for k in range(1, p + 1):
        G = np.ones((len(cols), len(cols)))
        for v in vals[:k]:
            G = G * (v[:, cols].T @ v[:, cols])
        nb = wgt.copy()
        for v in vals[k:]:
            nb = nb * np.linalg.norm(v[:, cols], axis=0)
        ev = np.linalg.eigvalsh(nb[:, None] * G * nb[None, :])
        assume(ev[-1] > 0 and ev[0] > 1e-6 * ev[-1])      # singular-value ratios >= 1e-3 (resolution of the Gram form: 1e-8)
    lo = min(float(np.prod([np.min(np.abs(v[:, j])) for v in vals])) for j in range(m))
    hi = max(float(np.prod([np.max(np.abs(v[:, j])) for v in vals])) for j in range(m))
    assume(hi > 0 and lo > 1e-9 * hi)
    r = m + case['ranks_extra']
    ranks = [1] + [r] * p + [1] if case['ranks_list'] else r
    t = tdt.hocur(x, phi, ranks, repeats=case['repeats'], multiplier=case['multiplier'], progress=False)
    require_consistent(t, 'consistent')
    require(t.row_dims == n + [m] and t.col_dims == [1] * (p + 1), 'dims', 'hocur rows %s' % t.row_dims)
    require(max(t.ranks) <= m, 'hocur_ranks', 'ranks %s exceed the number of snapshots %d' % (t.ranks, m))
    rng = np.random.default_rng(case['seed'] ^ 0x5eed)
    for trial in range(12):
        kind = trial % 3
        if kind == 0:       # single entries
            w = [np.eye(nk)[rng.integers(nk)] for nk in n]
        elif kind == 1:     # positive rank-one tensors
            w = [rng.uniform(0.5, 1.5, nk) for nk in n]
        else:               # entries in some modes, sums over the others
            w = [np.eye(nk)[rng.integers(nk)] if rng.integers(2) else np.ones(nk) for nk in n]
        ref = np.ones(m)
        l1 = 1.0
        for wk, v in zip(w, vals):
            ref = ref * (wk @ v)
            l1 *= float(np.sum(np.abs(wk)))
        got = _core_contract(t.cores, w)
        close(got, ref, 1e-6, hi * l1, 'hocur_value', 'hocur with %d modes: %s' % (p, ['single entry', 'rank-one contraction', 'partial sums'][kind]))
    lab = general_labels(case)
    lab.add('modes_40plus' if p >= 40 else ('modes_13plus' if p >= 13 else 'modes_5plus'))
    if int(np.prod([float(nk) for nk in n])) >= 2 ** 63:
        lab.add('entries_beyond_int64')
    lab.add('repeats%d' % case['repeats'])
    return lab


def nt(labels):
    return bool({'m1', 'd1', 'single_function_mode', 'mixed_families', 'duplicated_snapshot', 'add_one_false', 'p1', 'data_int', 'data_strided', 'data_fortran',
                 'data_readonly'} & set(labels))


SUBCHECKS = [
    Sub('general', general_case(), body_general, nt, quick=400, thorough=4000, classes=['m1', 'd1', 'single_function_mode', 'mixed_families', 'duplicated_snapshot', 'p1', 'lagged_views', 'user_defined_function']),
    Sub('major', major_case(), body_major, nt, quick=400, thorough=4000, classes=['m1', 'd1', 'add_one_false', 'p1', 'duplicated_snapshot']),
    Sub('hocur', hocur_case(), body_hocur, nt, quick=300, thorough=3000, shards_quick=4,
        classes=['m1', 'single_function_mode', 'mixed_families', 'duplicated_snapshot', 'repeats1', 'repeats3', 'ranks_list_reused',
                 'user_defined_function']),
    Sub('hocur_many_modes', hocur_many_case(), body_hocur_many, lambda l: bool({'modes_13plus', 'modes_40plus'} & set(l)), quick=60, thorough=500,
        shards_quick=4, classes=['modes_5plus', 'modes_13plus', 'modes_40plus', 'entries_beyond_int64', 'm1', 'duplicated_snapshot', 'single_function_mode']),
]
