"""C05 -- global SVD and pseudoinverse of a tensor train match the matrix ones."""
import numpy as np
from hypothesis import strategies as st, assume

from scikit_tt.tensor_train import TT
from vt import dense, gen, build
from vt.common import Sub, Violation, require
from vt.build import close, require_consistent

PROPERTY_ID = 'C05'

RULE = ('Vector-type TTs of order 2..5 (mode sizes 1..4, real/complex) in three classes -- generic random cores (ranks 1..4 '
        'incl. over-parameterised, i.e. exactly rank-deficient unfoldings), harness-constructed U diag(s) V with orthonormal '
        'TT factors and a prescribed spectrum with gaps >= x100, and the same after pre-orthonormalisation so that '
        'ortho_l/ortho_r = False is admissible -- with every split index 1..d-1, threshold in {0, negligible 1e-14..1e-11, a real '
        'cut placed in a gap of the constructed class}, max_rank inf or >= all bond ranks, overwrite in {False, True}. Oracle: numpy.linalg.svd / pinv of the dense unfolding (contracted independently): '
        'singular values, isometry of contract(u) and contract(v), reconstruction (best rank-k part under a cut), '
        'pinv == pinv(M, rcond)^H, input bit-identical when overwrite is False. Non-trivial: complex, rank-deficient, split not '
        'at the last bond, a real cut, or order >= 4.')
RULE += (' ' + 'Added classes: prescribed spectra over eight decades under a random gauge, long modes, side cores orthonormal only to 3e-6 or single precision, NumPy-scalar threshold / max_rank; the input of a call without overwrite is compared bit by bit.')

RULE += (' Added class: real-typed cores inside a complex train (generic class).')

ASSUMPTIONS = [
    'column dimensions are 1 (documented: non-operator tensor trains)',
    'real cuts (threshold or max_rank that discards non-negligible singular values) only on inputs whose factors left/right of '
    'the split are orthonormal: the routine passes the threshold to its orthonormalisation sweeps, where truncation of a '
    'non-orthonormal representation has no a-priori bound, so equality with the matrix SVD is not claimed there',
    'pseudoinverse compared where the kept singular values satisfy sigma_k/sigma_1 >= 1e-5 and discarded ones are below '
    '1e-11 sigma_1 or below the cut (guard band via assume)',
    'ortho_l/ortho_r = False only on inputs that are already orthonormal on that side',
]


@st.composite
def svd_case(draw):
    d = draw(st.sampled_from([2, 2, 3, 3, 4, 5]))
    rows = [draw(st.sampled_from([1, 2, 2, 3, 3, 4])) for _ in range(d)]
    if draw(st.sampled_from([False, False, False, True])):
        rows[draw(st.sampled_from([0, d - 1, d - 1]))] = draw(st.sampled_from([16, 32, 40]))      # one long mode (snapshot index)
    index = draw(st.integers(1, d - 1))
    klass = draw(st.sampled_from(['generic', 'generic', 'constructed', 'preorth', 'illcond']))
    cplx = draw(st.booleans())
    case = {'rows': rows, 'index': index, 'klass': klass, 'cplx': cplx, 'seed': draw(gen.SEED),
            # threshold / max_rank handed over as NumPy scalars (np.float64 from an array of tolerances, np.int64 from a shape)
            'numpy_params': draw(st.sampled_from([False, False, True])), 'scale_exp': draw(st.sampled_from([0, 0, 0, -12, -4, 5, -20, -30, 15])),
            'overwrite': draw(st.booleans()), 'layout': draw(gen.LAYOUT)}
    if klass == 'generic':
        case['ranks'] = [1] + [draw(gen.SMALL_RANK) for _ in range(d - 1)] + [1]
        if draw(st.sampled_from([False] * 7 + [True])):
            # a product state built from ONE array used at every site, TT([c] * d): rank-1 bonds, equal modes
            case['aliased_product'] = True
            case['rows'] = rows = [min(rows[0], 4)] * d
            case['ranks'] = [1] * (d + 1)
        case['threshold'] = draw(st.sampled_from([0, 0, 0.0, 1e-12, 1e-10]))
        case['max_rank'] = draw(st.sampled_from([None, None, 4, 6, 50]))
        case['flags'] = [True, True]
        case['provenance'] = draw(st.sampled_from([None, None, None, 'ortho_left_scaled', 'ortho_right_scaled', 'ortho_negated_sum', 'copy_of_ortho_left']))
        if case.get('aliased_product'):
            case['provenance'] = None
        if cplx and d >= 2 and draw(st.sampled_from([False, False, True])):
            # some cores of the complex train are real-typed (a complex first core followed by real ones, ...); at least one stays complex
            real = [i for i in range(d) if draw(st.booleans())]
            case['real_cores'] = real[1:] if len(real) == d else real
    else:
        nl = int(np.prod(rows[:index]))
        nr = int(np.prod(rows[index:]))
        k = draw(st.integers(min(2, nl, nr), max(1, min(nl, nr, 4))))
        # spectrum: decreasing, consecutive ratios >= 100 at the places where a cut may fall
        exps = [0.0]
        for _ in range(k - 1):
            exps.append(exps[-1] - draw(st.sampled_from([0.0, 0.1, 2.0, 2.5, 3.0])))
        if klass == 'illcond':
            # every singular value is kept (threshold 0) although the spectrum spans up to eight decades, and the decay is not
            # carried by one graded core (random gauge on every bond): a solver that squares the condition number shows here
            exps = [0.0]
            for _ in range(k - 1):
                exps.append(max(exps[-1] - draw(st.sampled_from([1.0, 2.0, 3.0])), -8.0))
        case['spectrum_exp'] = exps
        case['side_rank'] = draw(st.integers(1, 3))
        cut = draw(st.sampled_from(['none', 'mid_gap', 'mid_gap', 'just_below', 'just_below'])) if klass != 'illcond' else 'none'
        gaps = [j for j in range(1, k) if exps[j - 1] - exps[j] >= 2.0]
        # 'just_below': the threshold sits 20 % below the last kept singular-value ratio (the next one is at least 26 % lower)
        tight = [j for j in range(1, k + 1) if j == k or exps[j - 1] - exps[j] >= 0.1]
        if cut == 'mid_gap' and gaps:
            j = draw(st.sampled_from(gaps))      # keep j singular values
            case['keep'] = j
            case['threshold'] = float(10.0 ** (0.5 * (exps[j - 1] + exps[j])))
        elif cut == 'just_below' and tight and exps[0] == 0.0:
            j = draw(st.sampled_from(tight))
            case['keep'] = j
            case['tight'] = True
            case['threshold'] = float(10.0 ** exps[j - 1] / 1.2)
        else:
            case['threshold'] = draw(st.sampled_from([0, 0, 1e-12])) if klass != 'illcond' else 0
        case['max_rank'] = draw(st.sampled_from([None, None, 64]))
        case['flags'] = [draw(st.booleans()), draw(st.booleans())] if klass == 'preorth' else [True, True]
        sep = [j for j in range(1, k) if exps[j - 1] - exps[j] >= 0.1]       # cuts with a unique best approximation
        if klass == 'preorth' and case['flags'] == [False, False] and 'keep' not in case and sep and draw(st.booleans()):
            # both sweeps switched off on an orthonormal input: a finite max_rank acts on the splitting SVD alone and keeps the
            # leading max_rank singular triplets (with a sweep switched on the cap would also cut the orthonormal side bonds)
            case['max_rank'] = draw(st.sampled_from(sep))
            case['keep'] = case['max_rank']
            case['threshold'] = 0
        if klass == 'constructed':
            # the orthonormal side cores only nearly so: every core rescaled by 1 +- 3e-6, or stored in single precision and read back
            case['near_gauge'] = draw(st.sampled_from([None, None, 'rescale', 'float32']))
    return case


def orth_tt_left(rng, rows, k, r, cplx):
    """cores of a TT (open right boundary rank k) whose matricisation (prod rows x k) has orthonormal columns"""
    d = len(rows)
    n = int(np.prod(rows))
    q = dense.rand_unitary(rng, n, cplx)[:, :k]
    # exact TT-SVD of the n x k matrix seen as tensor rows + [k]
    cores = dense.tt_svd(q.reshape(list(rows) + [k]), list(rows) + [k], [1] * (d + 1))
    # absorb the last (k-mode) core into the boundary rank
    last = cores[-1][:, :, 0, 0]                       # (r_d, k)
    cores = cores[:-1]
    cores[-1] = np.tensordot(cores[-1], last, axes=([3], [0]))
    return cores


def build_case(case):
    rng = np.random.default_rng(case['seed'])
    rows, idx, cplx = case['rows'], case['index'], case['cplx']
    d = len(rows)
    if case['klass'] == 'generic':
        spec = {'rows': rows, 'cols': [1] * d, 'ranks': case['ranks'], 'cplx': cplx, 'seed': case['seed'], 'layout': case['layout']}
        if case.get('real_cores'):
            spec['real_cores'] = case['real_cores']
        return build.make_cores(spec, rng)
    s = 10.0 ** np.array(case['spectrum_exp'])
    k = len(s)
    left = orth_tt_left(rng, rows[:idx], k, case['side_rank'], cplx)
    right_rev = orth_tt_left(rng, rows[idx:][::-1], k, case['side_rank'], cplx)
    right = [np.transpose(c, [3, 1, 2, 0]) for c in right_rev[::-1]]
    if case['klass'] == 'illcond':
        left[-1] = left[-1] * s[None, None, None, :]
        cores = dense.gauge([np.array(c) for c in left + right], rng, cplx)
    elif case['klass'] == 'constructed':
        # s is absorbed into the last left core; then a gauge that keeps both sides orthonormal is all that is applied
        left[-1] = left[-1] * s[None, None, None, :]
        cores = left + right
        if case.get('near_gauge') == 'rescale':
            cores = [np.array(c) * (1.0 + 3e-6 * rng.uniform(-1, 1)) for c in cores]
        elif case.get('near_gauge') == 'float32':
            cores = [np.array(c).astype(np.complex64 if np.iscomplexobj(c) else np.float32).astype(np.asarray(c).dtype) for c in cores]
    else:
        left[-1] = left[-1] * s[None, None, None, :]
        cores = left + right
        # bring into the form the routine itself produces: cores < idx-1 left-orthonormal, cores >= idx right-orthonormal
        cores = [np.array(c) for c in cores]
        for i in range(idx - 1):
            r, m, n, rr = cores[i].shape
            q, rm = np.linalg.qr(cores[i].reshape(r * m * n, rr))
            cores[i] = q.reshape(r, m, n, q.shape[1])
            cores[i + 1] = np.tensordot(rm, cores[i + 1], axes=([1], [0]))
        for i in range(d - 1, idx - 1, -1):
            r, m, n, rr = cores[i].shape
            q, rm = np.linalg.qr(cores[i].reshape(r, m * n * rr).T)
            cores[i] = q.T.reshape(q.shape[1], m, n, rr)
            cores[i - 1] = np.tensordot(cores[i - 1], rm.T, axes=([3], [0]))
        if 'keep' not in case:
            # a side whose flag is ON is the routine's job: it gets a random gauge, so that it is not orthonormal on arrival
            # (only without a real cut: on a generic gauge the sweeps' relative cut sees representation-dependent spectra)
            fl = case['flags']
            bonds = (list(range(1, idx)) if fl[0] else []) + (list(range(idx, d)) if fl[1] else [])
            for b in bonds:
                rb = cores[b].shape[0]
                g = np.eye(rb) + 0.3 * rng.standard_normal((rb, rb))
                if np.linalg.cond(g) > 50:
                    g = np.eye(rb)
                cores[b - 1] = np.tensordot(cores[b - 1], g, axes=([3], [0]))
                cores[b] = np.tensordot(np.linalg.inv(g), cores[b], axes=([1], [0]))
    if case['layout'] == 'F':
        cores = [np.asfortranarray(c) for c in cores]
    return cores


def body_svd(case):
    cores = build_case(case)
    if case.get('scale_exp', 0):
        # relative thresholds are scale-invariant: rescale the whole tensor
        cores = [np.array(c) for c in cores]
        k0 = case['index'] - 1        # the centre core carries the scale (the outer cores may have to stay orthonormal)
        cores[k0] = cores[k0] * 10.0 ** case['scale_exp']
    prov = case.get('provenance')

    def with_history(t):
        # the train has a history inside the library (whatever bookkeeping earlier routines left on the object travels along):
        # the dense reference below is contracted from the cores of the object as it is now
        if not (prov and case['klass'] == 'generic'):
            return t
        if prov == 'ortho_left_scaled':
            t.ortho_left()
            t = 3.0 * t
        elif prov == 'ortho_right_scaled':
            t.ortho_right()
            t = t * (-0.5)
        elif prov == 'ortho_negated_sum':
            t.ortho()
            t = t - 2.0 * t
        elif prov == 'copy_of_ortho_left':
            t.ortho_left()
            t = t.copy()
            t.cores[-1] = t.cores[-1] * 2.0
        return t

    def fresh_tt():
        if case.get('aliased_product') and case['klass'] == 'generic':
            c0 = np.array(cores[0], order='K')
            return TT([c0] * len(cores))
        return TT([np.array(c, order='K') for c in cores])

    t = with_history(fresh_tt())
    d, idx = t.order, case['index']
    rows = case['rows']
    x = dense.contract(t.cores).reshape(rows)
    M = dense.unfold(x, idx)
    sig = np.linalg.svd(M, compute_uv=False)
    s0 = max(sig[0], 1e-300)
    th = case['threshold']
    mr = np.inf if case['max_rank'] is None else case['max_rank']
    lab = {case['klass']}
    if case['cplx'] and case.get('real_cores') and case['klass'] == 'generic':
        lab.add('mixed_core_dtypes')
    if case['cplx']:
        lab.add('complex')
    if idx != d - 1:
        lab.add('inner_split')
    if d >= 4:
        lab.add('order>=4')
    if any(r == 1 for r in rows):
        lab.add('size1mode')
    if max(rows) >= 16:
        lab.add('long_mode')
    if 'keep' in case:
        lab.add('real_cut')
        if case.get('tight'):
            lab.add('cut_just_below_a_singular_value')
    if case['overwrite']:
        lab.add('overwrite')
    if case.get('scale_exp', 0):
        lab.add('rescaled')
    if case['flags'] != [True, True]:
        lab.add('no_ortho_flags')
    if prov and case['klass'] == 'generic':
        lab.add('library_provenance')
    # guard band: no singular value in the ambiguous zone between 'numerically zero' and 'well above every negligible threshold'
    if case.get('near_gauge'):
        lab.add('nearly_orthonormal_sides')
    if case.get('aliased_product') and case['klass'] == 'generic':
        lab.add('one_array_at_every_site')
    if case['klass'] == 'illcond':
        numrank = int(np.sum(sig > 1e-13 * s0))          # prescribed spectrum down to 1e-8: everything above rounding is kept
    else:
        assume(not np.any((sig > 1e-13 * s0) & (sig < 1e-5 * s0)))
        numrank = int(np.sum(sig > 1e-5 * s0))
    if numrank < min(M.shape):
        lab.add('rank_deficient')
    if case['klass'] == 'generic':
        # a cap below a bond rank would truncate inside the sweeps (no bound claimed): keep caps >= all ranks
        assume(mr >= max(case['ranks']))
    before = build.snapshot(t)
    if case.get('numpy_params'):
        th = np.float64(th)
        lab.add('numpy_scalar_parameters')
    kw = dict(threshold=th, ortho_l=case['flags'][0], ortho_r=case['flags'][1], overwrite=case['overwrite'])
    if case['max_rank'] is not None:
        kw['max_rank'] = np.int64(case['max_rank']) if case.get('numpy_params') else case['max_rank']
    u, s, v = t.svd(idx, **kw)
    require_consistent(u, 'svd_consistent')
    require_consistent(v, 'svd_consistent')
    require(isinstance(s, np.ndarray) and s.ndim == 1, 'svd_shape', 's is not a vector')
    k = s.shape[0]
    require(u.order == idx and v.order == d - idx and u.ranks[-1] == k and v.ranks[0] == k and u.ranks[0] == 1 and v.ranks[-1] == 1,
            'svd_shape', 'orders %d/%d, ranks %s / %s for %d singular values' % (u.order, v.order, u.ranks, v.ranks, k))
    require(u.row_dims == rows[:idx] and v.row_dims == rows[idx:], 'svd_shape', 'dims of u/v')
    if not case['overwrite']:
        build.require_unchanged(t, before, 'input of svd(overwrite=False)', strict=True)
    U = dense.contract(u.cores, keep_bounds=True).reshape(-1, k)
    V = dense.contract(v.cores, keep_bounds=True).reshape(k, -1)
    close(U.conj().T @ U, np.eye(k), 1e-10, 1.0, 'u_orthonormal', 'columns of u')
    close(V @ V.conj().T, np.eye(k), 1e-10, 1.0, 'v_orthonormal', 'rows of v')
    require(np.all(s[:-1] >= s[1:] - 1e-12 * s0) and np.all(s >= -1e-12 * s0), 'singular_values', 's not sorted/non-negative: %s' % s)
    if 'keep' in case:
        kk = case['keep']
        require(k == kk, 'singular_values', 'kept %d singular values, the cut keeps %d (sigma %s)' % (k, kk, sig))
    else:
        kk = k
        if th != 0:
            require(np.all(s > th * s[0]), 'singular_values', 'returned singular values below the relative threshold: %s' % s)
        require(k >= numrank, 'singular_values', 'only %d singular values returned, numerical rank is %d' % (k, numrank))
    ref = np.zeros(k)
    ref[:min(k, len(sig))] = sig[:min(k, len(sig))]
    close(s, ref, 1e-10, s0, 'singular_values', 'singular values vs numpy.linalg.svd of the unfolding')
    # reconstruction
    uu, ss, vv = np.linalg.svd(M, full_matrices=False)
    Mk = (uu[:, :kk] * ss[:kk]) @ vv[:kk] if 'keep' in case else M
    close((U * s) @ V, Mk, 1e-10, s0, 'reconstruction', 'u diag(s) v')

    # pinv ----------------------------------------------------------------------------------------------------
    t2 = with_history(fresh_tt())
    before2 = build.snapshot(t2)
    if case['max_rank'] is None:
        p = t2.pinv(idx, threshold=th, ortho_l=case['flags'][0], ortho_r=case['flags'][1], overwrite=case['overwrite'])
        require_consistent(p, 'pinv_consistent')
        require(p.row_dims == rows and p.order == d, 'pinv_shape', 'dims of pinv')
        if not case['overwrite']:
            build.require_unchanged(t2, before2, 'input of pinv(overwrite=False)', strict=True)
        kp = kk if 'keep' in case else numrank
        if 'keep' in case or th != 0 or numrank == min(k, len(sig)):
            # (with threshold 0 and exact zeros among the returned singular values the reciprocal is meaningless; skipped)
            Pd = (uu[:, :kp] / ss[:kp]) @ vv[:kp]          # = pinv(M, cut)^H
            got = dense.unfold(dense.contract(p.cores).reshape(rows), idx)
            cond = ss[0] / ss[kp - 1]
            close(got, Pd, 1e-11 * cond * cond + 1e-10, 1.0 / ss[kp - 1], 'pinv_value', 'pinv vs numpy pinv^H')
            lab.add('pinv_compared')
    return lab


def nt(labels):
    return bool({'complex', 'rank_deficient', 'inner_split', 'real_cut', 'order>=4', 'no_ortho_flags'} & set(labels))


SUBCHECKS = [
    Sub('svd_pinv', svd_case(), body_svd, nt, quick=600, thorough=8000, shards_quick=8,
        classes=['generic', 'constructed', 'preorth', 'illcond', 'complex', 'inner_split', 'real_cut',
                 'rank_deficient', 'overwrite', 'no_ortho_flags', 'pinv_compared', 'size1mode', 'rescaled', 'cut_just_below_a_singular_value']),
]
