"""C18 -- tensor-based EDMD (AMUSEt) matches matrix EDMD and treats index sets independently."""
import numpy as np
from hypothesis import strategies as st, assume

import scikit_tt.data_driven.tedmd as tedmd
from scikit_tt.tensor_train import TT
from vt import dense, gen, build
from vt.common import Sub, Violation, require
from vt.build import close, require_consistent
from vt.props import c15
from vt.props.c17 import match_multisets

PROPERTY_ID = 'C18'

RULE = ('Hypothesis draws the state dimension (1..3), snapshot count m (6..14), product bases with a constant plus 1..3 further '
        'functions per mode (1..4 modes, all differentiable families), index-set pairs (lagged windows, random subsets, |x| >= 2) '
        'singly and as lists of 2..3 pairs, the HOSVD threshold (<= 1e-10, so that only the documented 1e-3 cut of the reduced step '
        'acts) the variant (HOSVD / HOCUR) and the form of the snapshot matrix (float, strided view, Fortran order; integer dtype for HOSVD). Oracle: dense EDMD K = U S^-1 V^H Psi_y^T with the 1e-3 relative cut on the '
        'singular values of Psi_x: returned values = real parts of its non-zero eigenvalues, ordered by |lambda - 1|; for real '
        'simple spectra K xi_k = lambda_k xi_k (scale-free); batch call == single calls (eigenvalues and dense eigentensors); '
        'returned tensors consistent. Non-trivial: a list of pairs, random-subset index sets, >= 2 modes, rank-deficient Psi_x, or '
        'the HOCUR variant.')
RULE += (' ' + 'Added classes: extra outputs ef_tf / st_tf, basis objects used before, coordinate-function bases on data of size 1e-9 ... 1e3, two amplitudes in one data matrix, binding rank caps for the HOCUR variant (judged by repeatability and batch == single only).')

RULE += (' Added class: HOSVD threshold 10 % below the smallest non-zero singular-value ratio of the sweep (replayed in NumPy).')

ASSUMPTIONS = [
    'oracle: numpy.linalg.svd / eig on the explicitly built transformed data matrix (c15.psi_ref)',
    'guard bands (cases discarded otherwise): no singular-value ratio of Psi_x within a factor 3 of the 1e-3 cut; no singular-value '
    'ratio of an unfolding of Psi in (1e-13, 1e-7); eigenvalues pairwise separated by 1e-4 max|lambda| for the eigen-equation clause',
    'index sets have at least two snapshots and Psi has rank >= 2 (the routine squeezes singleton axes)',
    'HOCUR variant: max_rank >= m, the same conditioning guard as C15, floating-point data (integer-valued snapshots make the '
    'sampled crosses exactly singular: outside the domain of a cross approximation)',
    'the eigenvector matrix of the dense reduced matrix has condition number <= 1e5 (Bauer-Fike: otherwise eigenvalues are not '
    'determined to 1e-6; discarded)',
]


@st.composite
def amuset_case(draw):
    d = draw(st.integers(1, 3))
    m = draw(st.integers(6, 14))
    p = draw(st.integers(1, 4))
    phi = []
    for _ in range(p):
        f = [{'family': 'constant', 'index': 0}] + [c15.fn_spec(draw, d) for _ in range(draw(st.integers(1, 3)))]
        phi.append(f)
    if p >= 2 and draw(st.sampled_from([False, False, False, True])):
        # a mode with a single basis function that is not constant (a weight function multiplying the whole basis)
        phi[draw(st.integers(0, p - 1))] = [draw(st.sampled_from([{'family': 'gauss', 'index': 0, 'mean': 0.0, 'variance': 1.0},
                                                                   {'family': 'cos', 'index': d - 1, 'alpha': 0.5}]))]
    homogeneous = d >= 2 and p <= 3 and draw(st.sampled_from([False, False, False, False, True]))
    if homogeneous:
        # coordinate functions only (no constant): the transformed data tensor is homogeneous of degree p in the data, so data of size
        # 1e-7 / 1e-9 give a tensor of size 1e-14 ... 1e-27 with unchanged singular-value RATIOS
        phi = [[{'family': 'identity', 'index': i} for i in draw(st.lists(st.integers(0, d - 1), min_size=2, max_size=d, unique=True))] for _ in range(p)]
    npairs = draw(st.sampled_from([1, 1, 2, 3]))
    pairs = []
    for _ in range(npairs):
        kind = draw(st.sampled_from(['lag', 'lag', 'subset', 'negative', 'resampled', 'same_object']))
        if kind == 'lag':
            lag = draw(st.integers(1, 3))
            n = draw(st.integers(2, m - lag))
            start = draw(st.integers(0, m - lag - n))
            xi = list(range(start, start + n))
            yi = [i + lag for i in xi]
        elif kind == 'negative':
            # a trailing window addressed from the end (ordinary NumPy index arrays): positions -n-lag .. -lag-1 and -n .. -1
            lag = draw(st.integers(1, 3))
            n = draw(st.integers(2, m - lag))
            xi = list(range(-n - lag, -lag))
            yi = list(range(-n, 0))
        elif kind == 'resampled':
            # transition pairs drawn WITH replacement (bootstrap): a pair (x_j, y_j) may occur several times and counts that often
            n = draw(st.integers(3, m + 2))
            picks = draw(st.lists(st.integers(0, m - 2), min_size=n, max_size=n))
            xi = list(picks)
            yi = [j + 1 for j in picks]
        elif kind == 'same_object':
            # lag 0: ONE index array handed over for both snapshot sets (the operator is then the projector onto the span of Psi_x)
            n = draw(st.integers(2, m))
            xi = draw(st.lists(st.integers(0, m - 1), min_size=n, max_size=n, unique=True))
            yi = list(xi)
        else:
            n = draw(st.integers(2, m))
            xi = draw(st.lists(st.integers(0, m - 1), min_size=n, max_size=n, unique=True))
            yi = draw(st.lists(st.integers(0, m - 1), min_size=n, max_size=n, unique=True))
        pairs.append([xi, yi, kind])
    variant = draw(st.sampled_from(['hosvd', 'hosvd', 'hocur']))
    # integer-valued snapshots make Psi exactly degenerate (repeated snapshots, zero function values): fine for the HOSVD
    # variant, outside the domain of the cross approximation (see C15), which therefore only gets the floating-point forms
    form = draw(c15.DATA_FORM if variant == 'hosvd' else st.sampled_from(['float', 'float', 'strided', 'fortran', 'readonly']))
    return {'d': d, 'm': m, 'phi': phi, 'pairs': pairs, 'seed': draw(gen.SEED), 'variant': variant,
            'threshold': draw(st.sampled_from([0, 1e-12, 1e-10])), 'as_list': draw(st.booleans()), 'data_form': form,
            # HOSVD threshold 10 % below the smallest non-zero singular-value ratio of the sweep: cuts nothing but exact zeros
            'tight_threshold': draw(st.sampled_from([False, False, False, True])),
            # the optional extra outputs of the HOSVD variant (eigenfunctions at the snapshots, singular tensors) must not change
            # the two documented ones
            'extras': draw(st.sampled_from(['none', 'none', 'ef', 'st', 'both'])),
            # the same basis-function objects have been used before, in a call on another data matrix (several trajectories analysed
            # one after the other with one basis list)
            'basis_used_before': draw(st.sampled_from([False, False, True])),
            # HOCUR variant with a binding cap on the ranks (an approximation: nothing is claimed about its eigenvalues, but the result
            # for a pair in a list is still the result for that pair alone, and a second identical call returns the same)
            # data in other units (coordinates of size 1e-7 or 1e3): every cut is relative, the oracle is computed from the same data
            'x_scale_exp': (draw(st.sampled_from([-9, -7, -7, 3, 0])) if homogeneous else draw(st.sampled_from([0, 0, 0, -7, -4, 3]))) if form == 'float' else 0,
            # two trajectories of different amplitude stored in one data matrix: the second half of the snapshots is smaller by 8 / 32
            # (the cut for a pair of index sets is relative to the snapshots it selects)
            'amplitude_split': draw(st.sampled_from([None, 8.0, 32.0])) if (homogeneous and form == 'float') else None,
            'hocur_cap': draw(st.sampled_from([None, None, None, 2, 3, 4])) if variant == 'hocur' else None}


def reference(Psi, xi, yi):
    """-> (eigenvalues of the reduced matrix, K, U, s) or None if a guard band is hit"""
    pos = np.arange(Psi.shape[1])
    xi, yi = pos[np.asarray(xi)], pos[np.asarray(yi)]          # index arrays address snapshots the NumPy way (negative = from the end)
    Px, Py = Psi[:, xi], Psi[:, yi]
    U, s, Vh = np.linalg.svd(Px, full_matrices=False)
    if s.size == 0 or not s[0] > 0:
        return None                     # (the selected snapshots are transformed to zero: nothing to decompose)
    ratio = s / s[0]
    if np.any((ratio > 1e-3 / 3) & (ratio < 3e-3)):
        return None
    k = int(np.sum(ratio > 1e-3))
    U, s, Vh = U[:, :k], s[:k], Vh[:k]
    Mred = Vh @ Py.T @ U / s
    lam, W = np.linalg.eig(Mred)
    # Bauer-Fike guard: eigenvalues of a (nearly) defective reduced matrix move by cond(W) * rounding; they cannot be
    # compared at 1e-6 (integer-valued data produce exactly defective zero eigenvalues)
    if np.linalg.cond(W) > 1e5:
        return None
    # the reduced matrix does not change when Psi is rescaled, so an absolute floor is meaningful: a spectrum that vanishes
    # altogether (1e-16 against 1e-16) cannot be compared relatively
    if np.linalg.norm(Mred, 2) < 1e-8:
        return None
    K = (U / s) @ Vh @ Py.T
    return lam, K, k


def run(c, x, phi, xi_list, yi_list):
    kw = {'progress': False}
    if c['variant'] == 'hosvd':
        if c['seed'] % 3 == 0:
            kw['max_rank'] = 1000            # a cap above every rank is a no-op
        extras = c.get('extras', 'none')
        if extras in ('ef', 'both'):
            kw['ef_tf'] = True
        if extras in ('st', 'both'):
            kw['st_tf'] = True
        out = tedmd.amuset_hosvd(x, xi_list, yi_list, phi, threshold=c['threshold'], **kw)
        require(isinstance(out, tuple) and len(out) == {'none': 2, 'ef': 3, 'st': 4, 'both': 5}[extras], 'batch_shape',
                'amuset_hosvd returned %d outputs with extras=%s' % (len(out) if isinstance(out, tuple) else -1, extras))
        return out[0], out[1]
    if c.get('hocur_cap'):
        return tedmd.amuset_hocur(x, xi_list, yi_list, phi, max_rank=c['hocur_cap'], multiplier=2, **kw)
    return tedmd.amuset_hocur(x, xi_list, yi_list, phi, max_rank=1000, multiplier=3, **kw)


def body(c):
    x = c15.data(c)
    if c.get('x_scale_exp', 0) and c.get('data_form', 'float') == 'float':
        x = np.asarray(x, dtype=float) * 10.0 ** c['x_scale_exp']
    if c.get('amplitude_split') and c.get('data_form', 'float') == 'float':
        x = np.array(x, dtype=float)
        x[:, c['m'] // 2:] /= c['amplitude_split']
    m = c['m']
    phi = [[c15.make_fn(s) for s in f] for f in c['phi']]
    nmodes = [len(f) for f in phi]
    vals = [np.array([[c15.ref_value(s, x[:, j]) for j in range(m)] for s in f]) for f in c['phi']]
    psi = c15.psi_ref(vals)
    Psi = psi.reshape(-1, m)
    N = Psi.shape[0]
    # conditioning guards on the decomposition of Psi itself
    for kk in range(1, len(nmodes) + 1):
        sv = np.linalg.svd(psi.reshape(int(np.prod(nmodes[:kk])), -1), compute_uv=False)
        lo = 1e-4 if c['variant'] == 'hocur' else 1e-7
        assume(sv[0] > 0 and not np.any((sv > 1e-13 * sv[0]) & (sv < lo * sv[0])))
    assume(np.linalg.matrix_rank(Psi, tol=1e-8 * np.linalg.norm(Psi, 2)) >= 2)
    if c['variant'] == 'hocur':
        assume(float(np.min(np.abs(Psi))) > 1e-9 * float(np.max(np.abs(Psi))))     # see C15: sampled crosses must not be numerically zero
    refs = []
    for xi, yi, _ in c['pairs']:
        r = reference(Psi, xi, yi)
        assume(r is not None and r[2] >= 2)
        refs.append(r)
    lab = {c['variant']}
    if c.get('tight_threshold') and c['variant'] == 'hosvd':
        # the ratios s/s[0] the left-to-right sweep of the routine sees (replayed in NumPy): a relative threshold 10 % below the smallest
        # non-zero one removes nothing but exact zeros, so the reference (which only has the documented 1e-3 cut) is unchanged
        from vt.props.c16 import local_ratios
        ratios = np.concatenate(local_ratios(vals, m))
        nz = ratios[ratios > 1e-12]
        assume(len(nz) > 0 and nz.min() >= 1e-6)
        c = dict(c, threshold=0.9 * float(nz.min()))
        lab.add('threshold_just_below_smallest_ratio')
    pairs = c['pairs']
    X = [np.array(p[0], dtype=int) for p in pairs]
    Y = [(X[j] if p[2] == 'same_object' else np.array(p[1], dtype=int)) for j, p in enumerate(pairs)]
    if c.get('basis_used_before'):
        other = np.array(np.asarray(x)[:, ::-1], dtype=np.asarray(x).dtype) * (1 if np.asarray(x).dtype.kind in 'iu' else 0.75)
        try:
            run(c, other, phi, X[0], Y[0])
        except Exception:     # noqa -- the earlier call is only history (its data are not guarded); the call under test is the next one
            pass
        lab.add('basis_used_before')
    if len(pairs) > 1 or c['as_list']:
        evs, ets = run(c, x, phi, list(X), list(Y))
        if len(pairs) == 1:
            evs, ets = [evs], [ets]          # documented: plain results when a single pair is given
            lab.add('single_pair_in_list')
        else:
            lab.add('pair_list')
        require(isinstance(evs, list) and isinstance(ets, list) and len(evs) == len(pairs) and len(ets) == len(pairs), 'batch_shape',
                'expected %d eigenvalue arrays / eigentensors' % len(pairs))
    else:
        e, t = run(c, x, phi, X[0], Y[0])
        evs, ets = [e], [t]
    if any(p[2] == 'subset' for p in pairs):
        lab.add('subset_indices')
    if any(p[2] == 'negative' for p in pairs):
        lab.add('negative_indices')
    if any(p[2] == 'resampled' and len(set(p[0])) < len(p[0]) for p in pairs):
        lab.add('repeated_transition_pairs')
    if any(p[2] == 'same_object' for p in pairs):
        lab.add('one_index_array_for_both_sets')
    if len(nmodes) >= 2:
        lab.add('multi_mode')
    if any(len(f) == 1 and f[0]['family'] != 'constant' for f in c['phi']):
        lab.add('single_nonconstant_function_mode')
    if c.get('data_form', 'float') != 'float':
        lab.add('data_' + c['data_form'])
    if c.get('x_scale_exp', 0) and c.get('data_form', 'float') == 'float':
        lab.add('rescaled_data')
    if c.get('amplitude_split') and c.get('data_form', 'float') == 'float':
        lab.add('two_amplitudes_in_one_data_matrix')
    if c['variant'] == 'hosvd' and c.get('extras', 'none') != 'none':
        lab.add('extra_outputs_' + c['extras'])
    if any(s_['family'] in c15.USER_FAMS for f in c['phi'] for s_ in f):
        lab.add('user_defined_function')
    capped = bool(c['variant'] == 'hocur' and c.get('hocur_cap'))
    if capped:
        lab.add('hocur_rank_cap')
        # determinism: the same call once more
        e2, t2 = run(c, x, phi, list(X), list(Y)) if (len(pairs) > 1 or c['as_list']) else run(c, x, phi, X[0], Y[0])
        if not isinstance(e2, list):
            e2, t2 = [e2], [t2]
        for j in range(len(evs)):
            a_, b_ = np.asarray(evs[j]), np.asarray(e2[j])
            require(a_.shape == b_.shape, 'repeatable', 'second identical call: %s eigenvalues, first call %s' % (b_.shape, a_.shape))
            close(b_, a_, 1e-9, max(float(np.max(np.abs(a_))) if a_.size else 0.0, 1e-300), 'repeatable', 'eigenvalues of pair %d in a second identical call' % j)
    for j, ((lam, K, k), ev, et) in enumerate(zip(refs, evs, ets)):
        if capped:
            require_consistent(et, 'consistent')
            continue
        ev = np.asarray(ev)
        lmax = max(np.max(np.abs(lam)), 1e-8)
        require(ev.ndim == 1 and ev.shape[0] == k and np.all(np.isreal(ev)), 'eigenvalue_count', 'pair %d: got %s eigenvalues, expected %d real numbers' % (j, ev.shape, k))
        require(match_multisets(list(ev), list(np.real(lam)), 1e-6 * lmax), 'eigenvalues',
                'pair %d: AMUSEt %s vs matrix EDMD %s' % (j, np.sort(ev), np.sort(np.real(lam))))
        dist = np.abs(np.asarray(ev) - 1)
        cplx = np.any(np.abs(np.imag(lam)) > 1e-8 * lmax)
        # documented ordering: by |lambda - 1| of the (possibly complex) eigenvalues, then real parts are reported
        dl = np.abs(lam - 1)
        order = np.argsort(dl, kind='stable')
        ds = dl[order]
        ties = [(ds[a + 1] - ds[a]) < 1e-5 * lmax and abs(np.real(lam[order[a + 1]]) - np.real(lam[order[a]])) > 1e-7 * lmax for a in range(k - 1)]
        if not any(ties):
            want_seq = np.real(lam[order])
            require(np.all(np.abs(np.asarray(ev) - want_seq) <= 1e-6 * lmax), 'ordering',
                    'pair %d: eigenvalues %s are not in the order of increasing |lambda - 1| (expected %s)' % (j, ev, want_seq))
            lab.add('ordering_checked_complex' if cplx else 'ordering_checked')
        require_consistent(et, 'consistent')
        require(et.row_dims == nmodes + [k] and et.col_dims == [1] * (len(nmodes) + 1), 'dims', 'pair %d: rows %s, expected %s' % (j, et.row_dims, nmodes + [k]))
        if k < min(N, len(pairs[j][0])):
            lab.add('rank_deficient_psi_x')
        gaps = [abs(lam[a] - lam[b]) for a in range(k) for b in range(a + 1, k)]
        if not cplx and (not gaps or min(gaps) > 1e-4 * lmax):
            lab.add('eigen_equation_checked')
            Xi = dense.contract(et.cores).reshape(N, k)
            nK = np.linalg.norm(K, 2)
            for q in range(k):
                v = Xi[:, q]
                nv = np.linalg.norm(v)
                require(nv > 0, 'eigentensor', 'pair %d: eigentensor %d is zero' % (j, q))
                res = np.linalg.norm(K @ v - ev[q] * v)
                require(res <= 1e-5 * nK * nv, 'eigentensor', 'pair %d: ||K xi - lambda xi|| = %.3e for eigenvalue %.6f (||K|| ||xi|| = %.3e)' % (j, res, ev[q], nK * nv))
        else:
            lab.add('complex_or_close_spectrum')
    # batch == singles
    if len(pairs) > 1:
        for j in range(len(pairs)):
            e1, t1 = run(c, x, phi, X[j], Y[j])
            lmax = max(np.max(np.abs(e1)), 1e-300)
            close(np.asarray(evs[j]), np.asarray(e1), 1e-9, lmax, 'batch_equals_single', 'eigenvalues of pair %d' % j)
            a = dense.contract(ets[j].cores)
            b = dense.contract(t1.cores)
            close(a, b, 1e-8, max(np.max(np.abs(b)), 1e-300), 'batch_equals_single', 'eigentensor of pair %d (batch call vs single call)' % j)
            require(all(ets[j] is not ets[i] for i in range(len(pairs)) if i != j), 'batch_distinct', 'the same TT object is returned for several pairs')
    return lab


def nt(labels):
    return bool({'pair_list', 'subset_indices', 'multi_mode', 'rank_deficient_psi_x', 'hocur'} & set(labels))


SUBCHECKS = [
    Sub('amuset', amuset_case(), body, nt, quick=200, thorough=2000, shards_quick=8, budget_quick=150,
        classes=['hosvd', 'hocur', 'pair_list', 'subset_indices', 'multi_mode', 'rank_deficient_psi_x', 'eigen_equation_checked',
                 'complex_or_close_spectrum', 'ordering_checked', 'ordering_checked_complex']),
]
