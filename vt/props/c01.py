"""C01 -- tensor-train arithmetic equals dense linear algebra."""
import numpy as np
from hypothesis import strategies as st

import scikit_tt.tensor_train as ttm
from scikit_tt.tensor_train import TT
from vt import dense, gen, build
from vt.common import Sub, Violation, require
from vt.build import close, require_consistent

PROPERTY_ID = 'C01'
TOL = 1e-11

RULE = ('Hypothesis draws order (1..5), per-mode row/column sizes (1..4, size 1 over-weighted), interior ranks (1..4, '
        'over-parameterised allowed), dtype (real/complex per operand), memory layout (C, F, transposed view), scalar '
        'types, index tuples and a data seed; core entries come from numpy default_rng(seed). Each case is evaluated '
        'through scikit_tt and through an independent einsum-style contraction of the cores plus the NumPy expression '
        'of the operation. A case is non-trivial when it has order 1, a size-1 mode, a rank-1 interior bond, complex '
        'or mixed dtype, over-parameterised ranks or differing operand ranks; distinct = distinct canonical JSON of '
        'the case.')
RULE += (' ' + 'Added classes (rounds 6-9): residual_error with a left-hand side that (nearly) solves the system (relative residual 1e-9 ... 0) and on operands of size 1e-14 ... 1e8; operands looked at again after every operation.')

ASSUMPTIONS = [
    'oracle: vt/dense.py contraction (numpy.tensordot chain) and NumPy/LAPACK dense linear algebra are trusted',
    'boundary ranks are 1 for full/matricize/element (documented precondition)',
    '1-norm only on tensors with non-negative real entries (documented assumption of TT.norm)',
    'scalars are python int/float/complex or numpy float64/complex128 (subclasses of the accepted python types)',
    'conjugate transposition of a strict subset of cores only for real data (not a function of the dense tensor otherwise)',
    'comparison tolerance 1e-11 relative to the product of the core norms',
]

NT = {'int_dtype', 'b:int_dtype', 'order1', 'size1mode', 'mixed_size1', 'rank1bond', 'complex', 'mixed_dtype', 'overparam', 'ranks_differ',
      'b:order1', 'b:size1mode', 'b:rank1bond', 'b:complex', 'b:overparam', 'b:mixed_size1'}


def nontrivial(labels):
    return bool(NT & set(labels))


# ---------------------------------------------------------------------------------------------------------
# sum / difference
# ---------------------------------------------------------------------------------------------------------

@st.composite
def two_same_dims(draw):
    a = draw(gen.tt_spec(max_order=5, max_dim=3, max_rank=4, int_dtype=True))
    b = draw(gen.tt_spec(rows=a['rows'], cols=a['cols'], kind='given', max_rank=4, int_dtype=True))
    return {'a': a, 'b': b}


def pair_labels(case):
    lab = gen.spec_labels(case['a']) | gen.spec_labels(case['b'], 'b:')
    if case['a']['cplx'] != case['b']['cplx']:
        lab.add('mixed_dtype')
    if case['a']['ranks'] != case['b']['ranks']:
        lab.add('ranks_differ')
    return lab


def body_sumdiff(case):
    a = build.make_tt(case['a'])
    b = build.make_tt(case['b'])
    da, db = np.array(dense.contract(a.cores)), np.array(dense.contract(b.cores))
    scale = dense.scale_of(a.cores) + dense.scale_of(b.cores)
    s = a + b
    require_consistent(s, 'sum_consistent')
    close(dense.contract(s.cores), da + db, TOL, scale, 'sum_value', 'A+B')
    require(s.row_dims == a.row_dims and s.col_dims == a.col_dims, 'sum_dims', 'dims of A+B')
    m = a - b
    require_consistent(m, 'diff_consistent')
    close(dense.contract(m.cores), da - db, TOL, scale, 'diff_value', 'A-B')
    # self-sum / self-difference (same object on both sides)
    z = a - a
    require_consistent(z, 'diff_consistent')
    close(dense.contract(z.cores), 0 * da, TOL, scale, 'diff_value', 'A-A')
    t = a + a
    close(dense.contract(t.cores), 2 * da, TOL, scale, 'sum_value', 'A+A')
    # sums and differences are new tensor trains: the operands still denote A and B afterwards
    for r_, nm in ((s, 'A+B'), (m, 'A-B'), (z, 'A-A'), (t, 'A+A')):
        require(r_ is not a and r_ is not b, 'sum_value', nm + ' handed back an operand')
    close(dense.contract(a.cores), da, TOL, scale, 'sum_value', 'operand A after the sums and differences')
    close(dense.contract(b.cores), db, TOL, scale, 'sum_value', 'operand B after the sums and differences')
    return pair_labels(case)


# ---------------------------------------------------------------------------------------------------------
# scalar multiples
# ---------------------------------------------------------------------------------------------------------

@st.composite
def tt_and_scalar(draw):
    return {'a': draw(gen.tt_spec(max_order=5, max_rank=4, int_dtype=True)), 's': list(draw(gen.SCALAR))}


def body_scalar(case):
    a = build.make_tt(case['a'])
    s = gen.make_scalar(case['s'])
    da = dense.contract(a.cores)
    scale = dense.scale_of(a.cores) * (abs(s) if abs(s) > 0 else 1.0)          # (relative to the size of the scalar, whatever it is)
    da = np.array(da)
    for name, f in (('A*s', lambda: a * s), ('s*A', lambda: s * a), ('A*s again', lambda: a * s)):
        r = f()
        require_consistent(r, 'scalar_consistent')
        close(dense.contract(r.cores), s * da, TOL, scale, 'scalar_value', name)
        require(r.row_dims == a.row_dims and r.col_dims == a.col_dims and r.ranks == a.ranks, 'scalar_dims', name)
        # the product is a new tensor train: the operand still denotes A (otherwise `A*s - A` would be zero)
        require(r is not a, 'scalar_value', name + ' handed back its operand')
        close(dense.contract(a.cores), da, TOL, scale, 'scalar_value', 'the operand after ' + name)
    lab = gen.spec_labels(case['a'])
    lab.add('scalar:' + case['s'][0])
    if case['s'][0] in ('complex', 'np.complex128') and not case['a']['cplx']:
        lab.add('mixed_dtype')
    if s == 0:
        lab.add('scalar_zero')
    return lab


# ---------------------------------------------------------------------------------------------------------
# operator product
# ---------------------------------------------------------------------------------------------------------

@st.composite
def matmul_pair(draw):
    a = draw(gen.tt_spec(max_order=4, max_dim=3, max_rank=3, int_dtype=True))
    kind = draw(st.sampled_from(['vector', 'operator', 'operator']))
    b = draw(gen.tt_spec(rows=a['cols'], kind=kind, max_dim=3, max_rank=3, int_dtype=True))
    return {'a': a, 'b': b, 'alias': draw(st.booleans())}


def body_matmul(case):
    a = build.make_tt(case['a'])
    b = build.make_tt(case['b'])
    ma, mb = dense.matrix(a.cores), dense.matrix(b.cores)
    want = ma @ mb
    scale = dense.scale_of(a.cores) * dense.scale_of(b.cores)
    p = a.dot(b) if case['alias'] else a @ b
    lab = pair_labels(case)
    if int(np.prod(a.row_dims)) == 1 and int(np.prod(b.col_dims)) == 1:
        # documented: scalar when all dimensions are 1
        lab.add('scalar_result')
        require(not isinstance(p, TT), 'matmul_scalar', 'all result dimensions are 1 but a TT was returned')
        require(np.ndim(p) == 0, 'matmul_scalar', 'result is not a scalar: %r' % (np.shape(p),))
        close(np.asarray(p), want[0, 0], TOL, scale, 'matmul_value', 'A@B (scalar)')
        return lab
    require_consistent(p, 'matmul_consistent')
    require(p.row_dims == a.row_dims and p.col_dims == b.col_dims, 'matmul_dims', 'dims of A@B')
    close(dense.matrix(p.cores), want, TOL, scale, 'matmul_value', 'A@B')
    return lab


# ---------------------------------------------------------------------------------------------------------
# transpose / conjugate / copy
# ---------------------------------------------------------------------------------------------------------

@st.composite
def transpose_case(draw):
    a = draw(gen.tt_spec(max_order=5, max_rank=4, int_dtype=True))
    d = len(a['rows'])
    subset = draw(st.one_of(st.none(), st.lists(st.integers(0, d - 1), unique=True, max_size=d)))
    conj = draw(st.booleans())
    if conj and a['cplx'] and subset is not None and len(subset) != d:
        subset = None
    return {'a': a, 'subset': subset, 'conjugate': conj, 'overwrite': draw(st.booleans()),
            'subset_type': draw(st.sampled_from(['list', 'ndarray']))}


def body_transpose(case):
    spec = case['a']
    d = len(spec['rows'])
    lab = gen.spec_labels(spec)
    scale = dense.scale_of(build.make_cores(spec))

    # transpose
    a = build.make_tt(spec)
    da = dense.contract(a.cores)
    subset = case['subset']
    sel = list(range(d)) if subset is None else sorted(subset)
    want = da
    for i in sel:
        want = np.swapaxes(want, i, d + i)
    if case['conjugate']:
        want = np.conj(want)
    arg = subset if subset is None or case['subset_type'] == 'list' else np.array(subset, dtype=int)
    t = a.transpose(cores=arg, conjugate=case['conjugate'], overwrite=case['overwrite'])
    require_consistent(t, 'transpose_consistent')
    if case['overwrite']:
        require(t is a, 'transpose_overwrite', 'overwrite=True did not return self')
    close(dense.contract(t.cores), want, TOL, scale, 'transpose_value', 'transpose(%s, conj=%s)' % (subset, case['conjugate']))
    if subset is None:
        lab.add('all_cores')
    elif len(sel) < d:
        lab.add('subset')
    if case['conjugate']:
        lab.add('conjugate')

    # conj
    a = build.make_tt(spec)
    c = a.conj(overwrite=case['overwrite'])
    require_consistent(c, 'conj_consistent')
    close(dense.contract(c.cores), np.conj(da), TOL, scale, 'conj_value', 'conj')
    require(c.row_dims == spec['rows'] and c.col_dims == spec['cols'], 'conj_dims', 'dims of conj')

    # copy
    a = build.make_tt(spec)
    k = a.copy()
    require_consistent(k, 'copy_consistent')
    require(k is not a, 'copy_distinct', 'copy returned self')
    for i in range(d):
        require(k.cores[i].shape == a.cores[i].shape and np.array_equal(k.cores[i], a.cores[i]), 'copy_value',
                'core %d of the copy differs from the original' % i)
    close(dense.contract(k.cores), da, TOL, scale, 'copy_value', 'copy')
    require(k.row_dims == a.row_dims and k.col_dims == a.col_dims and k.ranks == a.ranks, 'copy_dims', 'metadata of copy')
    require(k.row_dims is not a.row_dims and k.col_dims is not a.col_dims and k.ranks is not a.ranks,
            'copy_distinct', 'copy shares metadata lists with the original')
    for i in range(d):
        require(not np.shares_memory(k.cores[i], a.cores[i]), 'copy_distinct', 'core %d of the copy shares memory' % i)
    return lab


# ---------------------------------------------------------------------------------------------------------
# full / matricize / element
# ---------------------------------------------------------------------------------------------------------

@st.composite
def readout_case(draw):
    a = draw(gen.tt_spec(max_order=5, max_dim=4, max_rank=4, int_dtype=True))
    idx = [gen.index_tuple(draw, a['rows'], a['cols']) for _ in range(3)]
    return {'a': a, 'indices': idx, 'index_type': draw(st.sampled_from(['int', 'np.int64']))}


def body_readout(case):
    spec = case['a']
    a = build.make_tt(spec)
    d = len(spec['rows'])
    da = dense.contract(a.cores)
    scale = dense.scale_of(a.cores)
    f = a.full()
    close(f, da, TOL, scale, 'full_value', 'full()')
    m = a.matricize()
    mm = dense.matrix(a.cores)
    if int(np.prod(spec['cols'])) == 1:
        mm = mm.reshape(-1)     # documented: a vector unless self is an operator
    close(m, mm, TOL, scale, 'matricize_value', 'matricize()')
    for idx in case['indices']:
        arg = [int(i) for i in idx] if case['index_type'] == 'int' else [np.int64(i) for i in idx]
        e = a.element(arg)
        require(np.ndim(e) == 0, 'element_scalar', 'element() returned shape %r' % (np.shape(e),))
        close(np.asarray(e), da[tuple(idx)], TOL, scale, 'element_value', 'element(%s)' % idx)
    lab = gen.spec_labels(spec)
    if all(n == 1 for n in spec['cols']):
        lab.add('vector')
    elif all(m == 1 for m in spec['rows']):
        lab.add('rowvector')
    else:
        lab.add('operator')
    return lab


# ---------------------------------------------------------------------------------------------------------
# norms
# ---------------------------------------------------------------------------------------------------------

@st.composite
def norm_case(draw):
    p = draw(st.sampled_from([1, 2, 2]))
    if p == 1:
        a = draw(gen.tt_spec(max_order=5, max_rank=4, cplx=False, entries='nonneg'))
    else:
        a = draw(gen.tt_spec(max_order=5, max_rank=4, int_dtype=True))
        a['zero_cores'] = draw(st.sampled_from([[], [], [], [0], [len(a['rows']) - 1]]))
    return {'a': a, 'p': p}


def body_norm(case):
    spec = case['a']
    a = build.make_tt(spec)
    da = dense.contract(a.cores)
    scale = dense.scale_of(a.cores)
    got = a.norm(p=case['p'])
    lab = gen.spec_labels(spec)
    lab.add('p%d' % case['p'])
    require(np.ndim(got) == 0, 'norm_scalar', 'norm returned shape %r' % (np.shape(got),))
    if case['p'] == 2:
        want = np.linalg.norm(da.ravel())
        if spec.get('zero_cores'):
            lab.add('zero_tensor')
    else:
        if all(n == 1 for n in spec['cols']) or all(m == 1 for m in spec['rows']):
            want = np.sum(da)                       # Manhattan norm of a tensor
            lab.add('tensor')
        else:
            want = np.max(np.sum(dense.matrix(a.cores), axis=0))   # maximum column sum of an operator
            lab.add('operator')
    close(np.asarray(got, dtype=float), want, TOL, max(scale, 1e-300), 'norm_value', 'norm(p=%d)' % case['p'])
    if case['p'] == 2 and not spec.get('int_dtype') and all(c_.flags.writeable for c_ in a.cores):
        # the same object after one of its cores was rescaled in place (the user owns the cores): value operations describe the
        # tensor the object denotes NOW (a norm or a dense form remembered per object would not)
        k = spec['seed'] % len(a.cores)
        da = np.array(da)             # (the dense reference of an order-1 train can be a view of its only core)
        # (single entries are read before and after, with the same leading indices)
        full_idx = [tuple(int(spec['seed'] // (3 + j)) % n for j, n in enumerate(list(spec['rows']) + list(spec['cols']))) for _ in range(1)]
        for fi in full_idx:
            close(np.asarray(a.element(list(fi))), da.reshape(list(spec['rows']) + list(spec['cols']))[fi], TOL, max(scale, 1e-300), 'element_value', 'element%s before the in-place update' % (fi,))
        a.cores[k] *= -2.5
        for fi in full_idx:
            close(np.asarray(a.element(list(fi))), -2.5 * da.reshape(list(spec['rows']) + list(spec['cols']))[fi], TOL, max(2.5 * scale, 1e-300), 'element_value',
                  'element%s after core %d of the same object was rescaled in place' % (fi, k))
        got2 = a.norm(p=2)
        close(np.asarray(got2, dtype=float), 2.5 * want, TOL, max(2.5 * scale, 1e-300), 'norm_value', 'norm(p=2) after core %d of the same object was rescaled in place' % k)
        close(a.full().reshape(da.shape), -2.5 * da, TOL, max(2.5 * scale, 1e-300), 'full_value', 'full() after core %d of the same object was rescaled in place' % k)
        lab.add('core_updated_in_place')
    return lab


# ---------------------------------------------------------------------------------------------------------
# residual error
# ---------------------------------------------------------------------------------------------------------

@st.composite
def residual_case(draw):
    op = draw(gen.tt_spec(max_order=4, kind='operator', max_rank=3))
    x = draw(gen.tt_spec(rows=op['cols'], kind='vector', max_rank=3))
    b = draw(gen.tt_spec(rows=op['rows'], kind='vector', max_rank=3))
    return {'op': op, 'x': x, 'b': b, 'consistent_rhs': draw(st.booleans()), 'scale_exp': draw(st.sampled_from([0, 0, 0, -9, -14, 8])),
            # x (nearly) solves the system -- what the function is for (monitoring a solver): b := A x + delta * b, assembled by the
            # harness from the cores (product and block sum written out here)
            'near_solution': draw(st.sampled_from([None, None, None, 1e-9, 1e-10, 1e-12, 0.0]))}


def _product_cores(a_cores, x_cores):
    out = []
    for a, x in zip(a_cores, x_cores):
        p = np.einsum('amnb,cnd->acmbd', a, x[:, :, 0, :])
        out.append(p.reshape(a.shape[0] * x.shape[0], a.shape[1], 1, a.shape[3] * x.shape[3]))
    return out


def _sum_cores(p_cores, q_cores):
    d = len(p_cores)
    if d == 1:
        return [p_cores[0] + q_cores[0]]
    out = []
    for i, (p, q) in enumerate(zip(p_cores, q_cores)):
        if i == 0:
            c = np.concatenate([p, q], axis=3)
        elif i == d - 1:
            c = np.concatenate([p, q], axis=0)
        else:
            c = np.zeros((p.shape[0] + q.shape[0], p.shape[1], 1, p.shape[3] + q.shape[3]), dtype=np.result_type(p, q))
            c[:p.shape[0], :, :, :p.shape[3]] = p
            c[p.shape[0]:, :, :, p.shape[3]:] = q
        out.append(c)
    return out


def body_residual(case):
    op = build.make_tt(case['op'])
    x = build.make_tt(case['x'])
    b = build.make_tt(case['b'])
    if case.get('scale_exp', 0) and not case['x'].get('int_dtype') and not case['b'].get('int_dtype'):
        # ||A x - b|| is homogeneous in (x, b): every core entry of size 10^k (k = -9 ...), as for data in other units
        f = 10.0 ** case['scale_exp']
        x = build.tt_from([c * f for c in x.cores])
        b = build.tt_from([c * f for c in b.cores])
    near = case.get('near_solution')
    if near is not None and not case['b'].get('int_dtype'):
        ax = _product_cores(op.cores, x.cores)
        nb = max(float(np.linalg.norm(dense.matrix(b.cores))), 1e-300)
        nax = float(np.linalg.norm(dense.matrix(ax)))
        if near == 0.0:
            b = build.tt_from(ax)
        else:
            q = [np.array(c, dtype=np.result_type(c, float)) for c in b.cores]
            q[0] = q[0] * (near * nax / nb)
            b = build.tt_from(_sum_cores(ax, q))
    A = dense.matrix(op.cores)
    xv = dense.matrix(x.cores).reshape(-1)
    bv = dense.matrix(b.cores).reshape(-1)
    scale = dense.scale_of(op.cores) * dense.scale_of(x.cores) + dense.scale_of(b.cores)
    got = ttm.residual_error(op, x, b)
    require(np.ndim(got) == 0, 'residual_scalar', 'shape %r' % (np.shape(got),))
    close(np.asarray(got, dtype=float), np.linalg.norm(A @ xv - bv), TOL, scale, 'residual_value', '||Ax-b||')
    lab = gen.spec_labels(case['op']) | gen.spec_labels(case['x'], 'b:')
    if len({case['op']['cplx'], case['x']['cplx'], case['b']['cplx']}) > 1:
        lab.add('mixed_dtype')
    if case['x']['ranks'] != case['b']['ranks']:
        lab.add('ranks_differ')
    if near is not None and not case['b'].get('int_dtype'):
        lab.add('x_nearly_solves')
    return lab


# ---------------------------------------------------------------------------------------------------------
# constructors
# ---------------------------------------------------------------------------------------------------------

@st.composite
def ctor_case(draw):
    d = draw(st.integers(1, 5))
    rows = [draw(gen.SMALL_DIM) for _ in range(d)]
    cols = [draw(gen.SMALL_DIM) for _ in range(d)]
    if draw(st.booleans()):
        ranks = draw(st.integers(1, 4))
    else:
        ranks = [1] + [draw(gen.SMALL_RANK) for _ in range(d - 1)] + [1]
    inds = [draw(st.integers(0, m - 1)) for m in rows]
    norm = draw(st.sampled_from([1, 1.0, 0.5, 2.5, 7]))
    return {'rows': rows, 'cols': cols, 'ranks': ranks, 'inds': inds, 'norm': norm, 'seed': draw(gen.SEED)}


def body_ctor(case):
    rows, cols, ranks = case['rows'], case['cols'], case['ranks']
    d = len(rows)
    rl = ranks if isinstance(ranks, list) else [1] + [ranks] * (d - 1) + [1]
    shape = tuple(rows) + tuple(cols)
    z = ttm.zeros(rows, cols, ranks=ranks)
    require_consistent(z, 'zeros_consistent')
    require(z.ranks == rl and z.row_dims == rows and z.col_dims == cols, 'zeros_shape', 'metadata of zeros()')
    close(dense.contract(z.cores), np.zeros(shape), 0.0, 1.0, 'zeros_value', 'zeros()')
    o = ttm.ones(rows, cols, ranks=ranks)
    require_consistent(o, 'ones_consistent')
    require(o.ranks == rl and o.row_dims == rows and o.col_dims == cols, 'ones_shape', 'metadata of ones()')
    # cores filled with ones: every entry equals the product of the interior ranks (documented example: ranks=4,
    # order 3 -> entries 16); with the default ranks this is the all-ones tensor
    close(dense.contract(o.cores), np.full(shape, float(np.prod(rl))), 1e-13, float(np.prod(rl)), 'ones_value', 'ones()')
    o1 = ttm.ones(rows, cols)
    close(dense.contract(o1.cores), np.ones(shape), 0.0, 1.0, 'ones_value', 'ones() with default ranks')
    e = ttm.eye(rows)
    require_consistent(e, 'eye_consistent')
    close(dense.matrix(e.cores), np.eye(int(np.prod(rows))), 0.0, 1.0, 'eye_value', 'eye()')
    require(e.row_dims == rows and e.col_dims == rows, 'eye_shape', 'dims of eye()')
    u = ttm.unit(rows, case['inds'])
    require_consistent(u, 'unit_consistent')
    want = np.zeros(tuple(rows) + (1,) * d)
    want[tuple(case['inds']) + (0,) * d] = 1
    close(dense.contract(u.cores), want, 0.0, 1.0, 'unit_value', 'unit()')
    un = ttm.uniform(rows, ranks=ranks, norm=case['norm'])
    require_consistent(un, 'uniform_consistent')
    require(un.ranks == rl and un.row_dims == rows and un.col_dims == [1] * d, 'uniform_shape', 'metadata of uniform()')
    du = dense.contract(un.cores)
    val = case['norm'] / np.sqrt(np.prod(rows))
    close(du, np.full(du.shape, val), 1e-12, abs(val), 'uniform_value', 'uniform(): equal entries with 2-norm = norm')
    np.random.seed(case['seed'] % (2 ** 32))
    r = ttm.rand(rows, cols, ranks=ranks)
    require_consistent(r, 'rand_consistent')
    require(r.ranks == rl and r.row_dims == rows and r.col_dims == cols, 'rand_shape', 'metadata of rand()')
    for c in r.cores:
        require(np.all(c >= 0) and np.all(c < 1), 'rand_value', 'rand() core entries outside [0,1)')
    lab = set()
    if d == 1:
        lab.add('order1')
    if any(m == 1 for m in rows):
        lab.add('size1mode')
    if isinstance(ranks, int):
        lab.add('int_ranks')
    if any(x == 1 for x in rl[1:-1]):
        lab.add('rank1bond')
    if any(x > 1 for x in rl):
        lab.add('ranks>1')
    return lab


SUBCHECKS = [
    Sub('sumdiff', two_same_dims(), body_sumdiff, nontrivial, quick=1200, thorough=12000,
        classes=['order1', 'size1mode', 'rank1bond', 'complex', 'mixed_dtype', 'ranks_differ', 'overparam']),
    Sub('scalar', tt_and_scalar(), body_scalar, nontrivial, quick=1200, thorough=12000,
        classes=['order1', 'size1mode', 'complex', 'mixed_dtype', 'scalar:int', 'scalar:np.complex128']),
    Sub('matmul', matmul_pair(), body_matmul, nontrivial, quick=1200, thorough=12000,
        classes=['order1', 'size1mode', 'complex', 'mixed_dtype', 'scalar_result']),
    Sub('transpose', transpose_case(), body_transpose, nontrivial, quick=1200, thorough=12000,
        classes=['order1', 'complex', 'subset', 'conjugate', 'all_cores']),
    Sub('readout', readout_case(), body_readout, nontrivial, quick=1200, thorough=12000,
        classes=['order1', 'complex', 'vector', 'rowvector', 'operator', 'size1mode']),
    Sub('norm', norm_case(), body_norm, lambda l: nontrivial(l) or 'zero_tensor' in l, quick=1200, thorough=12000,
        classes=['order1', 'complex', 'p1', 'p2', 'tensor', 'operator']),
    Sub('residual', residual_case(), body_residual, nontrivial, quick=1200, thorough=12000,
        classes=['order1', 'complex', 'mixed_dtype']),
    Sub('constructors', ctor_case(), body_ctor, lambda l: bool({'order1', 'size1mode', 'rank1bond', 'int_ranks'} & set(l)),
        quick=600, thorough=6000, classes=['order1', 'size1mode', 'int_ranks', 'ranks>1']),
]
