"""C11 -- TDVP and Krylov propagators are exact on representable dynamics and conservative."""
import os
import numpy as np
import scipy.linalg as sla
from hypothesis import strategies as st, assume

import scikit_tt.solvers.ode as ode
from scikit_tt.tensor_train import TT
from vt import dense, gen, build
from vt.common import Sub, Violation, require
from vt.build import close, require_consistent

PROPERTY_ID = 'C11'
THOROUGH = os.environ.get('VERIF_TIER') == 'thorough'
NMAX = 128 if THOROUGH else 64

RULE = ('Hypothesis draws mode sizes (order 2..5, N <= 64 quick / 128 thorough), a dense Hermitian Hamiltonian (random unitary, '
        'spectrum in [-1,1], real or complex) converted with the harness\' TT-SVD, an initial state of maximal, intermediate or '
        'rank-1 TT ranks that the harness normalises and right-orthonormalises, a step size in [0.05,0.5], 1..3 steps, and for the '
        'two-site/hybrid schemes threshold and max_rank (defaults or caps). Oracle: scipy.linalg.expm(-i k h H) x0 for every '
        'returned state when the ranks are maximal or the dynamics is a product state under non-interacting sites (all three TDVP variants; mode sizes include 1) and for Krylov with a Krylov space of full dimension '
        '(N <= 16); for tdvp1site at every rank | ||x_k|| - 1 | and | <x_k|H|x_k> - <x_0|H|x_0> | <= 1e-9; the trajectory is '
        '[initial state by identity] + one state per step; operator and initial state bit-identical; rank caps respected. '
        'Non-trivial: complex H, order >= 3, non-maximal ranks, or >= 2 steps.')
RULE += (' ' + 'Added classes: max_rank=inf written out, maximal formal ranks with exactly vanishing Schmidt values (zero-padded right-orthonormal cores), Krylov dimensions N+1 / N+3, unit rescaling, start states in any gauge; operator and initial state are compared bit by bit; TDVP initial states of norm 1e-12, 3e-10 and 1e9 (the equation is linear), every tolerance relative to that norm.')

ASSUMPTIONS = [
    'oracle: scipy.linalg.expm on the dense Hamiltonian; TT operators from vt/dense.tt_svd',
    'initial states are normalised and right-orthonormal (the sweeps assume a right-orthonormal start; every in-repo caller '
    'orthonormalises first) and have order >= 2 (sweeps are defined on bonds)',
    'exactness is only claimed where the manifold contains the exact trajectory (maximal TT ranks, or rank-1 states under a sum of single-site Hamiltonians) with no effective truncation (threshold <= 1e-12, max_rank >= maximal rank)',
    'two-site and hybrid schemes: norm and energy conservation is additionally checked when nothing is truncated (threshold <= 1e-12, '
    'cap >= maximal rank) -- a consequence of the unitary local steps, not a separate claim of the statement',
    'Krylov: dimension = N <= 16 with a generic start vector (Lanczos without re-orthogonalisation), tolerance 1e-7',
]

DIMS = [d for d in [[2, 2], [2, 3], [3, 3], [4, 4], [3, 5], [2, 2, 2], [2, 3, 2], [3, 3, 3], [2, 4, 2], [4, 4, 4], [2, 2, 2, 2], [2, 3, 3, 2],
                    [2, 2, 2, 2, 2], [3, 2, 2, 3], [2, 2, 1], [1, 2, 2], [1, 3, 2, 1], [2, 1, 2], [3, 1], [1, 4], [2, 1, 1, 3], [1, 2, 3, 2],
                    [4, 2], [4, 2, 2], [3, 2, 2], [4, 2, 3], [2, 2, 4], [5, 2, 2], [2, 2, 5]]
        if int(np.prod(d)) <= NMAX]


def hamiltonian(rng, N, cplx):
    H = dense.herm(rng, N, cplx, rng.uniform(-1, 1, N))
    return (H + H.conj().T) / 2


def padded_state(rng, dims, cplx):
    """a state of low TT rank (1 or 2 on every bond) stored in right-orthonormal cores of MAXIMAL formal ranks: the low-rank cores
    sit in the leading block, the additional rows of every core are an orthonormal completion and the additional columns of the old
    rows are zero (so the additional bond indices are never reached): bond matrices with exactly vanishing Schmidt values"""
    d = len(dims)
    mr = dense.max_ranks(dims)
    low = [1] + [min(mr[i], 1 + int(rng.integers(0, 2))) for i in range(1, d)] + [1]
    lc = initial_state(rng, dims, low, cplx).cores
    out = []
    for i in range(d):
        r0, n, _, r1 = lc[i].shape
        R0, R1 = mr[i], mr[i + 1]
        core = np.zeros((R0, n, 1, R1), dtype=lc[i].dtype)
        core[:r0, :, :, :r1] = lc[i]
        if i > 0 and R0 > r0:
            rows = core[:r0].reshape(r0, n * R1)
            # orthonormal completion of the row space (R0 <= n R1 for maximal ranks)
            q, _ = np.linalg.qr(np.concatenate([rows.conj().T, build.rand_array(rng, (n * R1, R0 - r0), cplx)], axis=1))
            core[r0:] = q[:, r0:R0].conj().T.reshape(R0 - r0, n, 1, R1)
        out.append(core)
    return TT(out)


def initial_state(rng, dims, ranks, cplx):
    cores = [build.rand_array(rng, (ranks[i], dims[i], 1, ranks[i + 1]), cplx) for i in range(len(dims))]
    cores = dense.qr_right(cores)
    cores[0] = cores[0] / np.linalg.norm(cores[0])
    return TT(cores)


@st.composite
def tdvp_case(draw):
    dims = draw(st.sampled_from(DIMS))
    d = len(dims)
    mr = dense.max_ranks(dims)
    rk = draw(st.sampled_from(['maximal', 'maximal', 'maximal_tiny', 'maximal_padded', 'intermediate', 'rank1', 'product']))
    if rk in ('maximal', 'maximal_tiny', 'maximal_padded'):
        ranks = mr
    elif rk in ('rank1', 'product'):
        ranks = [1] * (d + 1)
    else:
        ranks = [1] + [draw(st.integers(1, mr[i])) for i in range(1, d)] + [1]
    c = {'dims': dims, 'ranks': ranks, 'rank_class': rk if (ranks != mr or rk in ('product', 'maximal_tiny', 'maximal_padded')) else 'maximal', 'cplx': draw(st.booleans()), 'seed': draw(gen.SEED),
         'h': draw(st.sampled_from([0.05, 0.1, 0.25, 0.5])), 'steps': draw(st.integers(1, 3)),
         'method': draw(st.sampled_from(['tdvp1site', 'tdvp1site', 'tdvp2site', 'tdvp'])),
         'threshold': draw(st.sampled_from([None, None, 0, 1e-12, 1e-8])), 'max_rank': draw(st.sampled_from([None, None, 50, 2, 3, 'inf', 'inf'])),
         'normalize': draw(st.sampled_from([0, 0, 2])),
         # the same operator object once more after the caller rescaled one of its cores in place (a Hamiltonian that changes from
         # one time window to the next): the second call has to integrate the operator as it is then
         'op_update_in_place': draw(st.sampled_from([False, False, True])),
         # the equation is linear: an initial state of norm 3 or 0.2 evolves like one of norm 1 (not combined with normalize=2)
         'x_norm': draw(st.sampled_from([1.0, 1.0, 3.0, 0.2, 1e-12, 3e-10, 1e9]))}
    return c


def body_tdvp(c):
    rng = np.random.default_rng(c['seed'])
    dims, d = c['dims'], len(c['dims'])
    N = int(np.prod(dims))
    product = c['rank_class'] == 'product'
    if product or c['rank_class'] == 'maximal_tiny':
        # non-interacting sites: a product state stays a product state, so rank 1 represents the dynamics exactly
        H = np.zeros((N, N), dtype=complex if c['cplx'] else float)
        for i, n in enumerate(dims):
            H = H + dense.embed(hamiltonian(rng, n, c['cplx']), i, dims)
    else:
        H = hamiltonian(rng, N, c['cplx'])
    op = TT(dense.op_cores(H, dims))
    if c['rank_class'] == 'maximal_tiny':
        # maximal formal ranks, but only a tiny entangled component (Schmidt values ~1e-8): a product state plus 1e-8 x generic,
        # under non-interacting sites so that the small Schmidt values stay small during the evolution
        pcores = [build.rand_array(rng, (1, n, 1, 1), c['cplx']) for n in dims]
        gcores = [build.rand_array(rng, (c['ranks'][i], dims[i], 1, c['ranks'][i + 1]), c['cplx']) for i in range(len(dims))]
        vec = dense.contract(pcores).reshape(-1)
        vec = vec / np.linalg.norm(vec) + 1e-8 * dense.contract(gcores).reshape(-1)
        cores = dense.qr_right(dense.tt_svd(vec.reshape(dims), dims, [1] * len(dims), tol=1e-15))
        cores[0] = cores[0] / np.linalg.norm(cores[0])
        x0 = TT(cores)
    elif c['rank_class'] == 'maximal_padded':
        x0 = padded_state(rng, dims, c['cplx'])
    else:
        x0 = initial_state(rng, dims, c['ranks'], c['cplx'])
    xn = c.get('x_norm', 1.0) if not c.get('normalize', 0) else 1.0
    if xn != 1.0:
        x0.cores[0] = x0.cores[0] * xn
    v0 = dense.matrix(x0.cores).reshape(-1).astype(complex)
    snaps = [(t, build.snapshot(t)) for t in (op, x0)]
    mr = dense.max_ranks(dims)
    maximal = list(x0.ranks) == mr or product
    m = c['method']
    kw = {}
    if m != 'tdvp1site':
        if c['threshold'] is not None:
            kw['threshold'] = c['threshold']
        if c['max_rank'] is not None:
            kw['max_rank'] = np.inf if c['max_rank'] == 'inf' else c['max_rank']         # ("no cap" written out)
    if c.get('normalize', 0):
        kw['normalize'] = c['normalize']        # unitary dynamics of a unit vector: the 2-norm normalisation must be a no-op
    sol = getattr(ode, m)(op, x0, c['h'], c['steps'], **kw)
    require(isinstance(sol, list) and len(sol) == c['steps'] + 1, 'length', '%d states for %d steps' % (len(sol), c['steps']))
    require(sol[0] is x0, 'initial_by_identity', 'first element of the trajectory is not the initial state object')
    for t, s in snaps:
        build.require_unchanged(t, s, 'argument of ' + m, strict=True)
    lab = {m, 'ranks_' + ('product' if product else c['rank_class'] if c['rank_class'] in ('maximal_tiny', 'maximal_padded') else 'maximal' if maximal else c['rank_class'])}
    if 1 in dims:
        lab.add('size1mode')
    if c['cplx']:
        lab.add('complex')
    if d >= 3:
        lab.add('order>=3')
    if c['steps'] >= 2:
        lab.add('multi_step')
    if c.get('normalize', 0):
        lab.add('normalize2')
    if xn != 1.0:
        lab.add('initial_state_not_normalised')
    if xn < 1e-8 or xn > 1e8:
        lab.add('state_norm_near_threshold_or_huge')
    cap = kw.get('max_rank', 50)
    th = kw.get('threshold', 1e-12)
    truncating = m != 'tdvp1site' and ((cap < max(mr) and not product) or th > 1e-12)
    if m == 'tdvp' and list(x0.ranks) == mr and not product:
        # the rank-adaptive scheme only takes a two-site move on a bond whose rank can still grow; at maximal ranks every bond is
        # treated by the (exact) one-site move, so neither a small max_rank nor a coarse threshold is an effective truncation
        truncating = False
        if cap < max(mr) or th > 1e-12:
            lab.add('hybrid_cap_below_ranks')
    if truncating:
        lab.add('truncating')
    e0 = np.real(np.vdot(v0, H @ v0))
    U = sla.expm(-1j * c['h'] * H)
    v = v0
    for k in range(1, c['steps'] + 1):
        v = U @ v
        s = sol[k]
        require_consistent(s, 'consistent')
        require(s.row_dims == dims and s.col_dims == [1] * d, 'dims', 'rows %s' % s.row_dims)
        got = dense.matrix(s.cores).reshape(-1)
        require(np.all(np.isfinite(got)), 'finite', 'non-finite state')
        if m != 'tdvp1site':
            lim = max(cap, max(x0.ranks))
            require(max(s.ranks) <= lim, 'rank_cap', 'ranks %s exceed max_rank %s' % (s.ranks, cap))
        if maximal and not truncating:
            close(got, v, 1e-10, xn, 'exact_at_full_rank', '%s state %d vs expm(-i t H) x0' % (m, k))
        if c.get('normalize', 0) == 2:
            require(abs(np.linalg.norm(got) - 1) <= 1e-9, 'unit_norm', 'normalize=2: state %d has norm %.12f' % (k, np.linalg.norm(got)))
        if m != 'tdvp1site' and not truncating and cap >= max(mr):
            # two-site / hybrid sweeps without any truncation are compositions of unitary local steps in orthonormal frames:
            # norm and energy are conserved exactly as for the one-site scheme (checked only when nothing is cut)
            require(abs(np.linalg.norm(got) - xn) <= 1e-9 * xn, 'norm_conserved_untruncated', '%s step %d: norm %.12f' % (m, k, np.linalg.norm(got)))
            e = np.real(np.vdot(got, H @ got))
            require(abs(e - e0) <= 1e-9 * xn * xn, 'energy_conserved_untruncated', '%s step %d: energy %.12f, initially %.12f' % (m, k, e, e0))
        if m == 'tdvp1site':
            require(abs(np.linalg.norm(got) - xn) <= 1e-9 * xn, 'norm_conserved', 'step %d: norm %.12f' % (k, np.linalg.norm(got)))
            e = np.real(np.vdot(got, H @ got))
            require(abs(e - e0) <= 1e-9 * xn * xn, 'energy_conserved', 'step %d: energy %.12f, initially %.12f' % (k, e, e0))
    if c.get('op_update_in_place') and maximal and not truncating and all(cc.flags.writeable for cc in op.cores):
        kk = c['seed'] % d
        op.cores[kk] *= 2.0
        sol2 = getattr(ode, m)(op, x0, c['h'], 1, **kw)
        require(isinstance(sol2, list) and len(sol2) == 2, 'length', '%d states for 1 step' % len(sol2))
        got2 = dense.matrix(sol2[1].cores).reshape(-1)
        close(got2, sla.expm(-1j * c['h'] * 2.0 * H) @ v0, 1e-10, xn, 'exact_at_full_rank',
              '%s with the same operator object after its core %d was doubled in place vs expm(-i t 2H) x0' % (m, kk))
        lab.add('operator_updated_in_place')
    return lab


@st.composite
def krylov_case(draw):
    dims = draw(st.sampled_from([d for d in DIMS if int(np.prod(d)) <= 16]))
    return {'dims': dims, 'cplx': draw(st.booleans()), 'seed': draw(gen.SEED), 'h': draw(st.sampled_from([0.05, 0.2, 0.5, 1.0])),
            'rank': draw(st.sampled_from(['maximal', 'rank1', 'two'])), 'norm': draw(st.sampled_from([1.0, 1.0, 2.0, 0.5, 1e-6, 1e4])),
            # the Krylov propagator makes no use of a gauge: generic (non-orthonormal) cores, left-orthonormal cores
            'gauge': draw(st.sampled_from(['right_orthonormal', 'generic', 'generic', 'left_orthonormal'])),
            'unit_exp': draw(st.sampled_from([0, 0, -13, 6])),
            # a requested Krylov dimension beyond the dimension of the state space still spans it ("for all Krylov dimensions")
            'extra_dim': draw(st.sampled_from([0, 0, 1, 3]))}


def body_krylov(c):
    rng = np.random.default_rng(c['seed'])
    dims, d = c['dims'], len(c['dims'])
    N = int(np.prod(dims))
    H = hamiltonian(rng, N, c['cplx'])
    # units: exp(-i t H) only depends on the product t H -- a Hamiltonian of norm 1e-13 (SI units) with a step of 1e13 is the same
    # problem as norm 1 with step 1
    unit = 10.0 ** c.get('unit_exp', 0)
    op = TT(dense.op_cores(H, dims))
    if unit != 1.0:
        # (as a user would write it, `1e-13 * op`: the factor sits in the first core.  With the factor in the LAST core the
        # Lanczos sums H v - alpha v have blocks of size 1 next to blocks of size 1e-13 in one core and the relative cut of the
        # rounding sweep removes the small ones -- a property of TT rounding of badly balanced sums, not of the propagator)
        op = unit * op
    mr = dense.max_ranks(dims)
    ranks = mr if c['rank'] == 'maximal' else ([1] * (d + 1) if c['rank'] == 'rank1' else [1] + [min(2, r) for r in mr[1:-1]] + [1])
    x0 = initial_state(rng, dims, ranks, c['cplx'])
    if c.get('gauge', 'right_orthonormal') == 'generic':
        x0 = TT([np.array(cc) for cc in dense.gauge([np.array(cc) for cc in x0.cores], rng, c['cplx'])])
    elif c.get('gauge') == 'left_orthonormal':
        x0 = TT([np.array(cc) for cc in dense.qr_left([np.array(cc) for cc in x0.cores])])
    if c.get('norm', 1.0) != 1.0:
        # the equation is linear: an initial value ("initial value for ODE") of norm 2 or 1e-6 evolves like one of norm 1
        x0.cores[0] = x0.cores[0] * c['norm']
    v0 = dense.matrix(x0.cores).reshape(-1).astype(complex)
    # generic start vector: components along all eigenvectors (otherwise the Krylov space is smaller than N)
    w, V = np.linalg.eigh(H)
    coef = np.abs(V.conj().T @ v0) / np.linalg.norm(v0)
    assume(coef.min() > 1e-3 and np.min(np.diff(w)) > 1e-3)
    snaps = [(t, build.snapshot(t)) for t in (op, x0)]
    extra = c.get('extra_dim', 0) if (unit == 1.0 and N >= 4) else 0
    try:
        s = ode.krylov(op, x0, N + extra, c['h'] / unit)
    except IndexError:
        # beyond the dimension of the state space the Lanczos residual is rounding noise; if it vanishes EXACTLY (lucky breakdown)
        # the routine rounds a zero tensor with a relative threshold -- the zero-tensor limit of DESIGN 2.3.  Only then a discard.
        if not extra:
            raise
        assume(False)
    for t, sn in snaps:
        build.require_unchanged(t, sn, 'argument of krylov', strict=True)
    require_consistent(s, 'consistent')
    require(s.row_dims == dims, 'dims', 'rows %s' % s.row_dims)
    got = dense.matrix(s.cores).reshape(-1)
    want = sla.expm(-1j * c['h'] * H) @ v0
    close(got, want, 1e-7, float(np.linalg.norm(v0)), 'krylov_exact', 'Krylov (full dimension %d) vs expm(-i h H) x0' % N)
    lab = {'krylov', 'ranks_' + c['rank']}
    if c.get('norm', 1.0) != 1.0:
        lab.add('unnormalised_start')
    if c.get('gauge', 'right_orthonormal') != 'right_orthonormal':
        lab.add('start_not_right_orthonormal')
    if c.get('unit_exp', 0):
        lab.add('rescaled_units')
    if extra:
        lab.add('dimension_above_state_space')
    if c['cplx']:
        lab.add('complex')
    if d >= 3:
        lab.add('order>=3')
    return lab


def nt(labels):
    return bool({'complex', 'order>=3', 'ranks_intermediate', 'ranks_rank1', 'ranks_product', 'size1mode', 'multi_step'} & set(labels))


SUBCHECKS = [
    Sub('tdvp', tdvp_case(), body_tdvp, nt, quick=250, thorough=2500, shards_quick=8, budget_quick=150,
        classes=['tdvp1site', 'tdvp2site', 'tdvp', 'ranks_maximal', 'ranks_maximal_tiny', 'ranks_maximal_padded', 'ranks_intermediate', 'ranks_rank1', 'ranks_product', 'size1mode', 'complex', 'order>=3', 'multi_step',
                 'truncating']),
    Sub('krylov', krylov_case(), body_krylov, nt, quick=100, thorough=1000, shards_quick=4, budget_quick=150,
        classes=['krylov', 'complex', 'order>=3', 'unnormalised_start']),
]
