"""C12 -- Markov generators from reaction lists (SLIM) and Ulam operators equal their definition."""
import itertools
import numpy as np
from hypothesis import strategies as st

import scikit_tt.slim as slim
import scikit_tt.data_driven.ulam as ulam
from vt import dense, gen, build
from vt.common import Sub, Violation, require
from vt.build import close, require_consistent

PROPERTY_ID = 'C12'

RULE = ('SLIM: Hypothesis draws a state-space vector (2..5 cells, 1..4 states each), 0..3 single-cell reactions per cell and '
        '0..4 two-cell reactions per bond (reactant/product states uniform in range incl. reactant = product, rates in '
        '[0.1,10], handed over as floats, as python integers, or all multiplied by 1e-12 / 1e6), open or cyclic (a d-th bond between last and first cell), threshold in {0, 1e-14, 1e-10}, or the '
        'homogeneous shortcut; the generator is compared with the dense master-equation generator obtained by enumerating '
        'every global state and every applicable reaction (rate added to G[target, source], subtracted from the diagonal), '
        'plus explicit column-sum and sign checks. Ulam: integer transition tables (1-based, repeats and unsampled boxes '
        'allowed) on 1..4 boxes per axis in 2-D and 3-D are compared with a numpy.add.at histogram divided by the number of '
        'simulations; the table is passed as int64 / int32 / uint8, C- or Fortran-ordered or as a strided view. Non-trivial: cyclic, unequal cell sizes, an empty reaction list, unequal bond ranks, or (Ulam) repeated '
        'transitions / unsampled boxes.')
RULE += (' ' + 'Added classes: the homogeneous shortcut on cells of different capacity, long axes and int8 tables for the Ulam operators, rates updated in place between calls.')

ASSUMPTIONS = [
    'oracle: explicit enumeration of global states and reactions (pure Python/NumPy)',
    'at least two cells (the construction has distinct first and last cores)',
    'a positive threshold is only combined with bonds that carry at least one effective two-cell reaction (the relative cut '
    's/s[0] of an all-zero interaction core is undefined)',
    'Ulam: every listed transition stays inside the grid; simulations >= 1',
]


# how the drawn rates are handed over: as they are, all multiplied by a common factor (a relative threshold is
# scale-invariant), or rounded up to python integers (rates are documented as numbers; 1 and 10 are as valid as 1.0)
RATE_FORM = st.sampled_from(['plain', 'plain', 'plain', 'int', 'x1e-12', 'x1e6'])


def apply_rate_form(reacts, form):
    out = []
    for r in reacts:
        r = list(r)
        if form == 'int':
            r[-1] = int(np.ceil(r[-1]))
        elif form == 'x1e-12':
            r[-1] = r[-1] * 1e-12
        elif form == 'x1e6':
            r[-1] = r[-1] * 1e6
        out.append(r)
    return out


def reaction_lists(draw, sizes, cyclic):
    d = len(sizes)
    single = []
    for i in range(d):
        n = draw(st.sampled_from([0, 1, 1, 2, 3]))
        single.append([[draw(st.integers(0, sizes[i] - 1)), draw(st.integers(0, sizes[i] - 1)),
                        draw(st.sampled_from([0.1, 0.5, 1.0, 2.0, 10.0]))] for _ in range(n)])
    two = []
    nb = d if cyclic else d - 1
    for b in range(nb):
        i, j = b, (b + 1) % d
        n = draw(st.sampled_from([0, 1, 1, 2, 3, 4]))
        two.append([[draw(st.integers(0, sizes[i] - 1)), draw(st.integers(0, sizes[i] - 1)),
                     draw(st.integers(0, sizes[j] - 1)), draw(st.integers(0, sizes[j] - 1)),
                     draw(st.sampled_from([0.1, 0.5, 1.0, 3.0, 10.0]))] for _ in range(n)])
    return single, two


@st.composite
def slim_case(draw):
    d = draw(st.sampled_from([2, 2, 3, 3, 4, 5]))
    sizes = [draw(st.sampled_from([1, 2, 2, 3, 3, 4])) for _ in range(d)]
    cyclic = draw(st.booleans())
    single, two = reaction_lists(draw, sizes, cyclic)
    return {'sizes': sizes, 'cyclic': cyclic, 'single': single, 'two': two,
            'threshold': draw(st.sampled_from([0, 0, 1e-14, 1e-10])), 'rate_form': draw(RATE_FORM)}


@st.composite
def hom_case(draw):
    d = draw(st.integers(2, 5))
    n = draw(st.sampled_from([1, 2, 2, 3, 3]))
    sizes = [n] * d
    if n >= 2 and draw(st.sampled_from([False, False, True])):
        # the same reactions on every cell / bond, but cells of different capacity ("equal or different cell sizes, homogeneous
        # shortcut included"): all reaction states lie inside the smallest cell
        sizes = [draw(st.sampled_from([n, n, n + 1, n + 2])) for _ in range(d)]
    cyclic = draw(st.booleans())
    ns = draw(st.integers(0, 3))
    single = [[draw(st.integers(0, n - 1)), draw(st.integers(0, n - 1)), draw(st.sampled_from([0.1, 1.0, 2.5]))] for _ in range(ns)]
    nt_ = draw(st.integers(0, 4))
    two = [[draw(st.integers(0, n - 1)), draw(st.integers(0, n - 1)), draw(st.integers(0, n - 1)), draw(st.integers(0, n - 1)),
            draw(st.sampled_from([0.1, 1.0, 4.0]))] for _ in range(nt_)]
    return {'sizes': sizes, 'cyclic': cyclic, 'single': single, 'two': two, 'threshold': draw(st.sampled_from([0, 0, 1e-14, 1e-10])),
            'rate_form': draw(RATE_FORM)}


def reference_generator(sizes, single, two):
    """single[i] = reactions of cell i; two[b] = reactions of bond (b, b+1 mod d). Dense master-equation generator."""
    d = len(sizes)
    N = int(np.prod(sizes))
    G = np.zeros((N, N))
    strides = [int(np.prod(sizes[i + 1:])) for i in range(d)]

    def idx(x):
        return sum(x[i] * strides[i] for i in range(d))

    for x in itertools.product(*[range(n) for n in sizes]):
        src = idx(x)
        for i in range(d):
            for (r, p, rate) in single[i]:
                if x[i] == r:
                    y = list(x)
                    y[i] = p
                    G[idx(y), src] += rate
                    G[src, src] -= rate
        for b, reacts in enumerate(two):
            i, j = b, (b + 1) % d
            for (r1, p1, r2, p2, rate) in reacts:
                if x[i] == r1 and x[j] == r2:
                    y = list(x)
                    y[i] = p1
                    y[j] = p2
                    G[idx(y), src] += rate
                    G[src, src] -= rate
    return G


def effective(reacts):
    """a two-cell reaction list produces a non-zero interaction core iff some reaction changes a state"""
    return any((r1 != p1 or r2 != p2) for (r1, p1, r2, p2, _) in reacts)


def check_generator(op, sizes, G, lab):
    require_consistent(op, 'consistent')
    require(op.row_dims == sizes and op.col_dims == sizes, 'dims', 'rows %s cols %s' % (op.row_dims, op.col_dims))
    M = dense.matrix(op.cores)
    scale = float(np.max(np.abs(G))) or 1.0
    close(M, G, 1e-10, scale, 'generator_value', 'TT generator vs master-equation generator')
    close(M.sum(axis=0), np.zeros(M.shape[1]), 1e-10, scale, 'column_sums', 'column sums')
    off = M - np.diag(np.diag(M))
    require(np.all(off >= -1e-10 * scale), 'offdiag_nonneg', 'negative off-diagonal entry %.3e' % off.min())


def body_slim(case):
    sizes, single, two, th = case['sizes'], case['single'], case['two'], case['threshold']
    form = case.get('rate_form', 'plain')
    single = [apply_rate_form(x, form) for x in single]
    two = [apply_rate_form(x, form) for x in two]
    d = len(sizes)
    lab = set()
    if form != 'plain':
        lab.add('rates_' + form)
    if case['cyclic']:
        lab.add('cyclic')
        if len(two) != d:
            raise AssertionError('generator bug')
    if len(set(sizes)) > 1:
        lab.add('unequal_sizes')
    if any(len(s) == 0 for s in single) or any(len(t) == 0 for t in two):
        lab.add('empty_list')
    if 1 in sizes:
        lab.add('size1cell')
    if th != 0:
        lab.add('threshold>0')
        if not all(effective(t) for t in two):
            th = 0          # relative cut undefined on an all-zero interaction core (see ASSUMPTIONS)
            lab.add('threshold_reset')
    G = reference_generator(sizes, single, two)
    a_sizes, a_single, a_two = list(sizes), [[list(r) for r in s] for s in single], [[list(r) for r in t] for t in two]
    op = slim.slim_mme(a_sizes, a_single, a_two, threshold=th)
    check_generator(op, sizes, G, lab)
    # the same argument lists once more: a second call sees what the first one left behind in them
    op2 = slim.slim_mme(a_sizes, a_single, a_two, threshold=th)
    close(dense.matrix(op2.cores), dense.matrix(op.cores), 1e-13, float(np.max(np.abs(G))) or 1.0, 'repeatable',
          'second call with the same argument lists')
    # parameter sweep: the caller changes rates inside the same list objects and builds the next generator
    upd_single = [[[r[0], r[1], r[2] * 3] for r in s_] for s_ in a_single]
    upd_two = [[[r[0], r[1], r[2], r[3], r[4] * 0.5] for r in t_] for t_ in a_two]
    for s_ in a_single:
        for r in s_:
            r[2] = r[2] * 3
    for t_ in a_two:
        for r in t_:
            r[4] = r[4] * 0.5
    if any(len(x) for x in a_single) or any(len(x) for x in a_two):
        G3 = reference_generator(sizes, upd_single, upd_two)
        op3 = slim.slim_mme(a_sizes, a_single, a_two, threshold=th)
        close(dense.matrix(op3.cores), G3, 1e-10, float(np.max(np.abs(G3))) or 1.0, 'generator_value',
              'generator after the rates were changed inside the same list objects')
        lab.add('rates_updated_in_place')
    if case['cyclic']:
        bond_ranks = [op.ranks[k] for k in range(1, d)]
        if len(set(bond_ranks)) > 1:
            lab.add('cyclic_unequal_ranks')
    return lab


def body_hom(case):
    sizes, single, two, th = case['sizes'], case['single'], case['two'], case['threshold']
    form = case.get('rate_form', 'plain')
    single, two = apply_rate_form(single, form), apply_rate_form(two, form)
    d = len(sizes)
    lab = {'homogeneous'}
    if form != 'plain':
        lab.add('rates_' + form)
    if case['cyclic']:
        lab.add('cyclic')
    if th != 0 and not effective(two):
        th = 0
    nb = d if case['cyclic'] else d - 1
    G = reference_generator(sizes, [single] * d, [two] * nb)
    a_sizes, a_single, a_two = list(sizes), [list(r) for r in single], [list(r) for r in two]
    if case.get('rate_form', 'plain') == 'plain' and len(sizes) % 2 == 0:
        op = slim.slim_mme_hom(a_sizes, a_single, a_two, case['cyclic'], th)       # (the optional arguments by position, in the documented order)
        lab.add('optional_arguments_by_position')
    else:
        op = slim.slim_mme_hom(a_sizes, a_single, a_two, cyclic=case['cyclic'], threshold=th)
    check_generator(op, sizes, G, lab)
    op2 = slim.slim_mme_hom(a_sizes, a_single, a_two, cyclic=case['cyclic'], threshold=th)
    close(dense.matrix(op2.cores), dense.matrix(op.cores), 1e-13, float(np.max(np.abs(G))) or 1.0, 'repeatable',
          'second call with the same argument lists')
    if not single or not two:
        lab.add('empty_list')
    if len(set(sizes)) > 1:
        lab.add('hom_different_cell_sizes')
    return lab


# ---------------------------------------------------------------------------------------------------------
# Ulam
# ---------------------------------------------------------------------------------------------------------

@st.composite
def ulam_case(draw):
    dim = draw(st.sampled_from([2, 3]))
    grid = [draw(st.integers(1, 4)) for _ in range(dim)]
    if draw(st.sampled_from([False, False, False, True])):
        # one long axis: flat box indices then exceed 255 / 127, which narrow-integer tables cannot hold themselves
        grid[draw(st.integers(0, dim - 1))] = draw(st.sampled_from([17, 20, 25]))
    sims = draw(st.integers(1, 5))
    mode = draw(st.sampled_from(['full', 'full', 'sparse']))
    # an over-sampled transition (merged or coarse-grained tables): one box-to-box transition occurs several hundred times more
    # often than the declared number of simulations per box
    return {'heavy': draw(st.sampled_from([0, 0, 0, 0, 300, 70000])) if mode == 'sparse' else 0,
            'dim': dim, 'grid': grid, 'sims': sims, 'mode': mode, 'seed': draw(gen.SEED), 'k': draw(st.integers(1, 30)),
            'form': draw(st.sampled_from(['int64', 'int64', 'int32', 'fortran', 'strided', 'uint8', 'uint8', 'int8']))}


def body_ulam(case):
    rng = np.random.default_rng(case['seed'])
    dim, grid, sims = case['dim'], case['grid'], case['sims']
    boxes = list(itertools.product(*[range(1, g + 1) for g in grid]))
    cols = []
    if case['mode'] == 'full':
        # `sims` transitions out of every box (columns must then sum to one)
        for b in boxes:
            for _ in range(sims):
                tgt = boxes[rng.integers(len(boxes))]
                cols.append(list(b) + list(tgt))
        rng.shuffle(cols)
    else:
        for _ in range(case['k']):
            cols.append(list(boxes[rng.integers(len(boxes))]) + list(boxes[rng.integers(len(boxes))]))
        if case.get('heavy'):
            cols += [list(cols[0])] * int(case['heavy'])
    T = np.array(cols, dtype=np.int64).T            # (2*dim) x K, 1-based
    want = np.zeros(grid + grid)
    src = tuple(T[i] - 1 for i in range(dim))
    tgt = tuple(T[dim + i] - 1 for i in range(dim))
    np.add.at(want, tgt + src, 1.0)
    want /= sims
    form = case.get('form', 'int64')
    Tin = T.copy()
    if form == 'int32':
        Tin = T.astype(np.int32)
    elif form == 'uint8':
        Tin = T.astype(np.uint8)            # unsigned box indices: index - 1 must not wrap around
    elif form == 'int8':
        Tin = T.astype(np.int8)
    elif form == 'fortran':
        Tin = np.asfortranarray(T)
    elif form == 'strided':
        big = np.zeros((T.shape[0], 2 * T.shape[1]), dtype=np.int64)
        big[:, ::2] = T
        Tin = big[:, ::2]
    op = ulam.ulam_2d(Tin, list(grid), sims) if dim == 2 else ulam.ulam_3d(Tin, list(grid), sims)
    require(np.array_equal(np.asarray(Tin, dtype=np.int64), T), 'transitions_unchanged', 'the transition table was modified')
    require_consistent(op, 'consistent')
    require(op.row_dims == grid and op.col_dims == grid, 'dims', 'rows %s cols %s' % (op.row_dims, op.col_dims))
    close(dense.contract(op.cores), want, 1e-12, 1.0 + float(want.max()), 'ulam_value', 'Ulam operator vs histogram')
    lab = {'ulam%dd' % dim, case['mode'], 'form_' + form}
    M = dense.matrix(op.cores)
    if case['mode'] == 'full':
        close(M.sum(axis=0), np.ones(M.shape[1]), 1e-12, 1.0, 'ulam_column_sums', 'columns of fully sampled boxes')
    else:
        counts = np.zeros(grid)
        np.add.at(counts, src, 1)
        if np.any(counts == 0):
            lab.add('unsampled_box')
    if len({tuple(c) for c in cols}) < len(cols):
        lab.add('repeated_transition')
    if 1 in grid:
        lab.add('single_box_axis')
    if max(grid) >= 17:
        lab.add('long_axis')
    return lab


def nt(labels):
    return bool({'cyclic', 'unequal_sizes', 'empty_list', 'cyclic_unequal_ranks', 'repeated_transition', 'unsampled_box',
                 'single_box_axis'} & set(labels))


SUBCHECKS = [
    Sub('slim', slim_case(), body_slim, nt, quick=700, thorough=6000, shards_quick=4,
        classes=['cyclic', 'unequal_sizes', 'empty_list', 'cyclic_unequal_ranks', 'threshold>0', 'size1cell']),
    Sub('slim_hom', hom_case(), body_hom, nt, quick=400, thorough=3000, classes=['cyclic', 'homogeneous', 'empty_list']),
    Sub('ulam', ulam_case(), body_ulam, nt, quick=500, thorough=4000,
        classes=['ulam2d', 'ulam3d', 'full', 'sparse', 'repeated_transition', 'unsampled_box']),
]
