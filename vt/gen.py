"""Hypothesis strategies.  Every strategy yields plain JSON-able values (dict/list/int/float/bool/str): structure is
drawn by Hypothesis (so that it shrinks), bulk array entries come from numpy.random.default_rng(case seed)
inside the bodies, so that a case is small and replays bit for bit."""
from hypothesis import strategies as st

SEED = st.integers(min_value=0, max_value=2 ** 31 - 1)
SMALL_DIM = st.sampled_from([1, 1, 2, 2, 2, 3, 3])          # size-1 modes over-weighted
SMALL_RANK = st.sampled_from([1, 1, 2, 2, 3, 3, 4])
LAYOUT = st.sampled_from(['C', 'C', 'F', 'T'])


@st.composite
def tt_spec(draw, min_order=1, max_order=4, kind=None, max_dim=3, max_rank=3, cplx=None, dims=None, cols=None,
            rows=None, entries='normal', layouts=True, int_dtype=False):
    """shape/rank/dtype specification of a random tensor train (see build.make_tt)"""
    if rows is not None:
        d = len(rows)
    elif cols is not None:
        d = len(cols)
    else:
        d = draw(st.integers(min_order, max_order))
    dim = st.sampled_from([x for x in [1, 1, 2, 2, 2, 3, 3, 4] if x <= max_dim])
    k = kind if kind is not None else draw(st.sampled_from(['vector', 'operator', 'operator', 'rowvec']))
    if rows is None:
        rows = [1] * d if k == 'rowvec' else [draw(dim) for _ in range(d)]
    if cols is None:
        if k == 'vector':
            cols = [1] * d
        elif k == 'square':
            cols = list(rows)
        else:
            cols = [draw(dim) for _ in range(d)]
    rk = st.sampled_from([x for x in [1, 1, 2, 2, 3, 3, 4] if x <= max_rank])
    ranks = [1] + [draw(rk) for _ in range(d - 1)] + [1]
    c = draw(st.booleans()) if cplx is None else cplx
    spec = {'rows': list(rows), 'cols': list(cols), 'ranks': ranks, 'cplx': c, 'seed': draw(SEED), 'entries': entries}
    spec['layout'] = draw(LAYOUT) if layouts else 'C'
    if not c and int_dtype and draw(st.sampled_from([False, False, False, True])):
        spec['int_dtype'] = True
    if c and d >= 2 and cplx is None and draw(st.sampled_from([False, False, True])):
        # some cores of a complex train are real-typed (at least one core stays complex)
        real = [i for i in range(d) if draw(st.booleans())]
        if len(real) == d:
            real = real[1:]
        spec['real_cores'] = real
    return spec


def spec_labels(spec, prefix=''):
    """class labels derived from a TT spec"""
    lab = set()
    d = len(spec['rows'])
    if d == 1:
        lab.add(prefix + 'order1')
    if d >= 4:
        lab.add(prefix + 'order>=4')
    if any(m == 1 and n == 1 for m, n in zip(spec['rows'], spec['cols'])):
        lab.add(prefix + 'size1mode')
    elif any(m == 1 or n == 1 for m, n in zip(spec['rows'], spec['cols'])) and \
            not (all(n == 1 for n in spec['cols']) or all(m == 1 for m in spec['rows'])):
        lab.add(prefix + 'mixed_size1')
    if d > 1 and any(r == 1 for r in spec['ranks'][1:-1]):
        lab.add(prefix + 'rank1bond')
    if spec['cplx']:
        lab.add(prefix + 'complex')
        if spec.get('real_cores'):
            lab.add(prefix + 'mixed_core_dtypes')
    if spec.get('layout', 'C') != 'C':
        lab.add(prefix + 'layout' + spec['layout'])
    if spec.get('int_dtype'):
        lab.add(prefix + 'int_dtype')
    from vt.dense import max_ranks
    mr = max_ranks(spec['rows'], spec['cols'])
    if any(r > m for r, m in zip(spec['ranks'], mr)):
        lab.add(prefix + 'overparam')
    return lab


def index_tuple(draw, rows, cols):
    return [draw(st.integers(0, m - 1)) for m in rows] + [draw(st.integers(0, n - 1)) for n in cols]


SCALAR = st.one_of(
    st.tuples(st.just('int'), st.integers(-3, 3)),
    st.tuples(st.just('float'), st.floats(-3, 3, allow_nan=False, allow_infinity=False)),
    st.tuples(st.just('complex'), st.floats(-2, 2, allow_nan=False), st.floats(-2, 2, allow_nan=False)),
    st.tuples(st.just('np.float64'), st.floats(-3, 3, allow_nan=False)),
    st.tuples(st.just('np.complex128'), st.floats(-2, 2, allow_nan=False), st.floats(-2, 2, allow_nan=False)),
    # scalars of another magnitude (a physical constant in SI units): 1e-15j, (5 + 5j) 1e-15, 3e12 ...
    st.tuples(st.just('complex'), st.sampled_from([0.0, 5e-15, 3e-20]), st.sampled_from([1e-15, 5e-15, -2e-18])),
    st.tuples(st.just('float'), st.sampled_from([1e-15, -3e-20, 3e12])),
)


def make_scalar(s):
    import numpy as np
    kind = s[0]
    if kind == 'int':
        return int(s[1])
    if kind == 'float':
        return float(s[1])
    if kind == 'complex':
        return complex(s[1], s[2])
    if kind == 'np.float64':
        return np.float64(s[1])
    if kind == 'np.complex128':
        return np.complex128(complex(s[1], s[2]))
    raise ValueError(kind)
