#!/venv/bin/python
"""Regenerates /verif/MANIFEST.json from the table below (kept valid against /root/.vp/MANIFEST.schema.json)."""
import json
import os
import sys

HERE = os.path.dirname(os.path.dirname(os.path.abspath(__file__)))

# id -> (technique, level text, level note, design section)
CHECKS = {
    'C01': ('property-based testing (Hypothesis): differential against an independent dense contraction + NumPy expression',
            'Generated-input search over orders 1-5, size-1 modes, rank-1 and over-parameterised bonds, real/complex/mixed '
            'dtype, memory layouts, scalar types and index tuples; every TT value operation is compared with NumPy on the '
            'independently contracted dense tensors. Exploration, not proof: it decides thousands of instances per run.',
            'Trusts NumPy/LAPACK and vt/dense.py; tolerance 1e-11 relative to the product of core norms; 1-norm only on '
            'non-negative tensors (documented).', '3/C01'),
    'C02': ('property-based testing (Hypothesis): differential against numpy.tensordot/reshape/delta-embedding/block placement',
            'Generated-input search over contraction modes and axis counts (partial and the three complete cases), boundary-rank '
            'contractions, concatenation, rank transposition, diag subsets incl. size-1 modes, squeeze placements, random '
            'factorizations for tt2qtt/qtt2tt (with round trip) and block lists with 0 placeholders for build_core; results are '
            'compared with the documented dense definition including mode order. Exploration, not proof.',
            'Trusts NumPy and vt/dense.py; inputs satisfy the documented preconditions (matching contracted dims, required '
            'boundary ranks 1, at least one ndarray block).', '3/C02'),
    'C03': ('property-based testing (Hypothesis): invariants on before/after snapshots (dense value, Gram = I, rank monotone, untouched window)',
            'Generated-input search over TT shapes incl. rank-deficient, over-parameterised and zero cores, all three sweeps and '
            'every admissible (start, end) pair; invariants are evaluated independently of the library. Exploration, not proof.',
            'Trusts NumPy and vt/dense.py; no truncation (threshold 0, max_rank inf).', '3/C03'),
    'C04': ('property-based testing (Hypothesis): error-bound theorems evaluated from numpy.linalg.svd of the dense unfoldings',
            'Generated tensors with flat, decaying, exactly low-rank(+noise) and zero spectra; all truncation entry points with int '
            'and per-bond caps and thresholds in [0,1); the oracle is the TT-SVD quasi-optimality bound (for the requested ranks), '
            'the threshold bound theta*||T||*sqrt(D), the rank cap and exactness at threshold 0. Theorem-based oracles cannot raise '
            'false alarms on correct code. Exploration, not proof.',
            'Trusts numpy.linalg.svd; slack 1e-9*||T||; zero tensor only with threshold 0; error bounds only where the opposite '
            'side is orthonormal.', '3/C04'),
    'C05': ('property-based testing (Hypothesis): differential against numpy.linalg.svd / pinv of the dense unfolding',
            'Generated vector-type TTs (generic incl. rank-deficient, constructed U diag(s) V with gapped spectra, pre-orthonormalised) '
            'with every split index, negligible and real (gap-placed) thresholds, overwrite and ortho flags; compares singular values, '
            'isometries, reconstruction and the pseudoinverse (conjugate transpose convention) and checks the input is untouched. '
            'Exploration, not proof.',
            'Trusts NumPy; real cuts only on inputs with orthonormal factors (see DESIGN C05); guard band on singular values via assume.',
            '3/C05'),
    'C12': ('property-based testing (Hypothesis): differential against a state-enumeration master-equation generator / numpy.add.at histogram',
            'Generated reaction networks (open and cyclic chains, unequal cell sizes, empty lists, unequal bond ranks, homogeneous '
            'shortcut) and integer transition tables; the TT operator is compared entry-wise with the dense definition and its '
            'corollaries (column sums, signs). Exploration, not proof.',
            'Trusts the explicit enumeration oracle in vt/props/c12.py; >= 2 cells; positive thresholds only on bonds with an '
            'effective reaction.', '3/C12'),
    'C13': ('property-based testing (Hypothesis) over enumerated model sizes x drawn parameters: defining formulas, dense or as TT-form identities',
            'Every bundled model is instantiated for all sizes that fit and random parameters and compared with its defining '
            'property/formula (generator, unitary, bit-reversed DFT, Hamiltonian/energy formula, ODE right-hand side, digit-wise '
            'fractal definition). Exploration, not proof.',
            'Trusts NumPy and the harness-side TT arithmetic in vt/dense.py; TT-form norms resolve ~1e-6 relative.', '3/C13'),
    'C14': ('property-based testing (Hypothesis): complex-step / Richardson differentiation of the evaluation as derivative oracle',
            'Generated families, parameters, coordinates, dimensions and points; first derivatives are checked against complex-step '
            'differentiation of the evaluation, second derivatives against complex-step differentiation of the (already checked) '
            'first derivative, plus gradient/hessian consistency, zero foreign derivatives and array evaluation. Exploration.',
            'B-spline degree >= 1; spline points away from knots; NotImplementedError for undocumented second derivatives is '
            'accepted as the documented contract.', '3/C14'),
    'C15': ('property-based testing (Hypothesis): differential against an explicit loop over multi-indices and snapshots',
            'Generated data, mixed basis-function lists, add_one, single_core, second data set (Gram) and HOCUR settings; the '
            'transformed data tensor is compared with the explicit product formula; HOCUR on 5..64 modes (dense tensor not representable) is compared through single entries and rank-one contractions of the returned cores with the closed-form products. Exploration, not proof.',
            'HOCUR ranks >= m (and m - 1 with a repeated snapshot: class of F29); ill-conditioned cases (singular-value ratios of an unfolding in (1e-13, 1e-4); for many modes: below 1e-3, evaluated in closed form) are discarded; failures of HOCUR on data with an exact zero are the known finding F28, failures with requested ranks m - 1 on data with a repeated snapshot the known finding F29 (KNOWN-FINDING lines, exit 0).', '3/C15'),
    'C06': ('property-based testing (Hypothesis): model-based operation histories with shadow copies + exhaustive producer x layout x follow-up cross product',
            'Generated call histories (10..40 steps over a pool of live tensor trains, results fed back as operands, in-place and '
            'overwrite variants interleaved, rank-1 bonds / F-ordered / transposed-view cores) with a shadow of every live object '
            'compared after every step; plus the complete enumeration of 31 result-returning producers (incl. overwrite targets and constructors called twice) x 7 layout classes x 10 '
            'in-place follow-ups (snapshot before the call: the call itself and later in-place operations on any result must leave '
            'operands and sibling results unchanged); plus an API sweep for TT-returning functions no other check receives. '
            'Exploration with an exhaustive finite part; not a proof.',
            'Unchanged = equal shape metadata and dense value to 1e-10 relative; library exceptions inside history rules are '
            'counted, not judged; solver rules use harness-made well-conditioned operators and admissible guesses.', '3/C06'),
    'C07': ('property-based testing (Hypothesis): dense numpy.linalg.solve reference, energy-norm descent, fixed point, solve == lu',
            'Generated Hermitian positive-definite systems (real/complex, dense and local-sum operators, N <= 64/256), guess classes '
            '(maximal, rank 1, admissible incl. left-over-parameterised, exact solution in a random gauge), repeats, micro-solvers, '
            'MALS thresholds and caps; checks descent versus the guess and in the sweep count, fixed point, exactness at full rank, '
            'shape/rank clauses and that operands are untouched. Exploration, not proof.',
            'Trusts NumPy; guesses have full-rank interfaces; MALS descent only without effective truncation; kappa <= 100.', '3/C07'),
    'C08': ('property-based testing (Hypothesis): dense scipy.linalg.eigh reference, Rayleigh quotient, metamorphic deflation == explicit shift, inverse-iteration bound',
            'Generated Hermitian (generalised) eigenproblems, real/complex, solvers eig/eigh/eigs, sigma, number_ev, repeats, '
            'deflation sets; checks Ritz-pair consistency, upper bound, monotonicity towards sigma, retention of exact pairs, '
            'exactness at full rank, the deflation/shift metamorphic relation and the power-method convergence bound. Exploration.',
            'Trusts SciPy eigh; exact-pair retention uses right-orthonormal guesses; number_ev = 2 needs interior ranks >= 2; see '
            'DESIGN C08.', '3/C08'),
    'C09': ('property-based testing (Hypothesis): differential against the dense defining recurrences and defect formulas',
            'Generated operators (Markov generators for 1-norm normalisation, general real/complex otherwise, rank <= 3 for HOD), '
            'varying step lists, ALS/MALS and micro-solver options, normalisation modes, HOD orders and starts; trajectories are '
            'compared state by state with the dense recurrence; estimators with the defect formulas on arbitrary TT lists; ordering '
            'invariants of the adaptive method. Exploration, not proof.',
            'Trusts NumPy; no effective truncation; implicit schemes start from maximal-rank guesses.', '3/C09'),
    'C10': ('property-based testing (Hypothesis): differential against products of scipy.linalg.expm of harness-assembled even/odd generators + measured convergence order',
            'Generated SLIM components (homogeneous arrays and per-site lists, 2-D/3-D couplings, generic/skew-Hermitian/stochastic), '
            'chain lengths 2..6, steps and step sizes; one step of each scheme is compared with the composed local exponentials, the '
            'convergence order is measured against expm(TA), norms are checked for skew-Hermitian generators and normalisation. '
            'Exploration, not proof.',
            'Trusts SciPy expm and the published Yoshida / Kahan-Li coefficients; max_rank large enough that nothing is cut.', '3/C10'),
    'C11': ('property-based testing (Hypothesis): differential against scipy.linalg.expm(-i t H) x0 plus norm/energy invariants',
            'Generated Hermitian Hamiltonians (real/complex), right-orthonormal initial states of maximal / intermediate / rank-1 '
            'ranks, step sizes, step counts, thresholds and caps; exactness at maximal rank for tdvp1site, tdvp2site, hybrid tdvp and '
            'full-dimension Krylov; norm and energy conservation of tdvp1site at every rank; trajectory structure; inputs untouched. '
            'Exploration, not proof.',
            'Trusts SciPy expm; initial states are right-orthonormal and of order >= 2; Krylov only for N <= 16.', '3/C11'),
    'C16': ('property-based testing (Hypothesis): differential against numpy.linalg.pinv of the explicit transformed data matrix; residual monotonicity for ARR',
            'Generated data (under-/over-determined, duplicated snapshots), scalar and product bases, thresholds chosen below the '
            'relevant singular-value ratios, regular and exactly singular Gram matrices, ARR guesses and sweep counts; checks '
            'Xi == (y pinv(Psi))^T, fitted values of the kernel variant, residual descent / rank retention / untouched guess for ARR; on nearly coincident snapshots (singular-value ratio 2e-12 ... 1e-8, threshold 0) the residual bound 300 eps cond ||y|| of a backward-stable pseudoinverse. '
            'Exploration, not proof.',
            'Trusts NumPy; guard bands on singular-value ratios (ill-conditioned cases are discarded, except in the dedicated moderately ill-conditioned ARR class with its own slack and the nearly-coincident-snapshot class, which is judged by its residual only); residual comparisons carry the resolution eps*||Xi||*||Psi|| of the residual evaluation itself.', '3/C16'),
    'C17': ('property-based testing (Hypothesis): differential against matrix DMD (numpy svd/eig) with scale-free eigen-equations',
            'Generated low-rank snapshot tensors (TT-SVD, random gauge, pre-orthonormalised with flags off, rescaled by 10^k), exact '
            'and standard variants, thresholds; eigenvalue multisets, exact/projected mode equations, inputs untouched, consistent '
            'result objects. Exploration, not proof.',
            'Real data; simple non-zero DMD spectra (others discarded); thresholds below the non-zero singular values.', '3/C17'),
    'C18': ('property-based testing (Hypothesis): differential against dense EDMD + metamorphic batch == singles',
            'Generated data, product bases, lagged and random-subset index sets singly and in lists, HOSVD and HOCUR variants; '
            'eigenvalues and their ordering by |lambda-1| (also for complex spectra), eigen-equation for real simple spectra, batch '
            'call equal to single calls in eigenvalues and dense eigentensors, consistent result objects. Exploration, not proof.',
            'Trusts NumPy; guard bands around the 1e-3 cut and on the conditioning of Psi.', '3/C18'),
    'C19': ('property-based testing (Hypothesis): product-rule oracle from harness-side closed-form derivatives; dense projected generator',
            'Generated bases (2..4 modes, shared coordinates), drift / reversible, square and non-square diffusion, reweighting, '
            'absolute/relative thresholds, return options, num_eigvals; generator_on_product(_reversible) against the product rule, '
            'tgEDMD eigenvalues against the dense projected generator. Exploration, not proof.',
            'Trusts NumPy; thresholds far below the singular values of Psi (a genuine cut of the sequential SVD is not comparable).',
            '3/C19'),
    'C20': ('property-based testing (Hypothesis): exact prediction by dense inverse-CDF sampling on harness-owned uniform variates (chi-square fallback)',
            'Generated normalised right-orthonormal states (entangled up to 7 qubits, block products up to ~120 qubits), measured '
            'subsets and sample counts; the sampler receives a Hypothesis-seeded uniform matrix through numpy.random.rand and its '
            'output must equal numpy.unique of the bit matrix predicted from the dense Born probabilities. Exploration, not proof.',
            'Trusts NumPy; numpy.random.rand is replaced around the call; matplotlib replaced by an import stub.', '3/C20'),
}

BUILT = set(CHECKS)
ALL = ['C%02d' % i for i in range(1, 21)]


def main():
    checks = []
    for pid in ALL:
        if pid not in CHECKS:
            continue
        tech, text, note, ref = CHECKS[pid]
        checks.append({
            'property_id': pid,
            'quick_cmd': './check %s --tier quick' % pid,
            'thorough_cmd': './check %s --tier thorough' % pid,
            'evidence_file': 'evidence/%s.json' % pid,
            'replay_cmd_template': './check %s --replay {path}' % pid,
            'engine': 'vt',
            'level_claimed': {'category': 'exploration', 'text': text, 'design_ref': 'DESIGN.md section ' + ref},
            'level_note': note,
            'technique': tech,
        })
    na = [{'property_id': pid, 'reason': 'check not built yet in this session (design in DESIGN.md section 3); not claimed'}
          for pid in ALL if pid not in CHECKS]
    man = {
        'version': 1,
        'setup_cmd': '/venv/bin/pip install --no-index --find-links /opt/veriftools/wheels hypothesis && '
                     '(/venv/bin/pip install --no-index --find-links /opt/veriftools/wheels --target .deps atheris || '
                     'echo "atheris not installed: the coverage-guided stage of the thorough tier will be skipped")',
        'hooks': {
            'guard': 'PGELSS_SCIKIT_TT_VERIF',
            'enable': 'no source hooks are needed: ./check runs the working tree of /repo directly (PYTHONPATH=/repo, fresh '
                      'interpreter per check); the variable is exported by ./check for completeness',
            'baseline_off_cmd': 'cd /repo && /venv/bin/python -m pytest -ra -q -p no:cacheprovider --timeout=900 '
                                '--continue-on-collection-errors',
            'source_commits': [],
            'add_only': True,
        },
        'engines': [{'name': 'vt', 'path': 'vt/', 'serves_properties': sorted(CHECKS),
                     'kind_free_text': 'Hypothesis-driven property-based testing framework (vt/run.py runner, vt/dense.py '
                                       'independent oracles, vt/props/cNN.py per-property generators and bodies); the thorough '
                                       'tier adds coverage-guided campaigns (vt/fuzz.py: atheris/libFuzzer driving the same '
                                       'strategies and bodies through hypothesis fuzz_one_input, failures shrunk by Hypothesis)'}],
        'checks': checks,
        'not_applicable': na,
        'notes': 'All checks: exit 0 = held on everything explored, exit 1 + VIOLATION line = violation with replay file, exit 2 = '
                 'harness error. VERIF_SEED selects the Hypothesis seeds; VERIF_REPO (default /repo) selects the tree. '
                 'Thorough tier = 16 Hypothesis shards per sub-check followed by 4 atheris campaigns per sub-check (VERIF_FUZZ=0 switches '
                 'the second stage off; it is skipped with a note in the evidence when atheris cannot be imported). '
                 'Known findings: known_findings.json (F01-F27 fixed by fix: commits in /repo, their replays under replays/<ID>/fixed-*.json '
                 'are re-run on every check; F28, hocur on transformed data tensors with exact zeros, and F29, hocur with requested ranks m - 1 on data with a repeated snapshot, are known and not repaired: C15 '
                 'prints a KNOWN-FINDING line for each and exits 0).',
    }
    with open(os.path.join(HERE, 'MANIFEST.json'), 'w') as f:
        json.dump(man, f, indent=1)
    try:
        import jsonschema
        jsonschema.validate(man, json.load(open('/root/.vp/MANIFEST.schema.json')))
        print('MANIFEST.json valid; %d checks, %d not claimed' % (len(checks), len(na)))
    except ImportError:
        print('MANIFEST.json written (jsonschema not available for validation)')


if __name__ == '__main__':
    main()
