#!/usr/bin/env python3
"""Markdown table of the seeded changes of one round (for DESIGN.md 9.2):  tools/seed_table.py f   -> rows of seeded/c??f-*"""
import os
import re
import sys
import glob
import json

HERE = os.path.dirname(os.path.dirname(os.path.abspath(__file__)))


def main():
    rnd = sys.argv[1] if len(sys.argv) > 1 else ''
    print('| seeded change | needs | caught by (clause) |')
    print('|---|---|---|')
    missed = 0
    rows = 0
    for p in sorted(glob.glob(os.path.join(HERE, 'seeded', 'c[0-9][0-9]%s-*' % rnd, 'meta.json'))):
        m = json.load(open(p))
        qc = m.get('our_quick_check', {})
        clause = ''
        for l in qc.get('lines', []):
            g = re.search(r'violated clause: (\S+)', l)
            if g:
                clause = g.group(1)
                break
            g = re.search(r'(exception \w+)', l)
            if g:
                clause = g.group(1)
        by = qc.get('by', m['property'])
        txt = '%s %s' % (by if by == m['property'] else '%s (%s)' % (m['property'], by), clause)
        if m.get('open_miss'):
            txt = '**missed, left open** -- ' + m['open_miss'].replace('|', '/')
            missed += 1
        elif m.get('out_of_domain'):
            txt = '**not decided** -- ' + m['history'].replace('not decided: ', '').replace('|', '/')
            missed += 1
        elif 'history' in m:
            txt += ' -- **missed at first**: ' + m['history'].replace('missed at first ', '').replace('|', '/')
            missed += 1
        rows += 1
        print('| %s | %s | %s |' % (m['name'], m.get('needs_to_manifest', '').replace('|', '/').replace('\n', ' '), txt))
    sys.stderr.write('%d rows, %d missed at first\n' % (rows, missed))


if __name__ == '__main__':
    main()
