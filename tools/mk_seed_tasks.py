#!/usr/bin/env python3
"""Write the task files for a round of seeding agents:  tools/mk_seed_tasks.py <round> [ID ...]

Each agent gets the property text, its own scratch worktree /tmp/wt<round>-cNN (create it with `git -C /repo worktree add --detach`)
and the list of ideas already used in earlier rounds (from seeded/*/meta.json), and nothing else.
Output: /tmp/agent<round>_task_CNN.txt (scratch; the template is tools/seed_task_template.txt)
"""
import sys, os, json, glob, re

HERE = os.path.dirname(os.path.dirname(os.path.abspath(__file__)))
rnd = sys.argv[1]
only = [a.upper() for a in sys.argv[2:]]
template = open(os.path.join(HERE, 'tools', 'seed_task_template.txt')).read()
for line in open(os.path.join(HERE, 'properties.jsonl')):
    p = json.loads(line)
    pid = p['id']
    if only and pid not in only:
        continue
    wt = '/tmp/wt%s-c%s' % (rnd, pid[1:])
    prior = []
    for m in sorted(glob.glob(os.path.join(HERE, 'seeded', '*', 'meta.json'))):
        meta = json.load(open(m))
        if meta.get('property') == pid:
            name = re.sub(r'^c\d\d[a-z]?-', '', meta['name']).replace('-', ' ')
            prior.append(' - %s (files %s; manifests with: %s)' % (name, ', '.join(meta.get('files', [])), meta.get('needs_to_manifest')))
    prop = '%s — %s\n\nStatement: %s\n\nQuantified over: %s\n\nAnchored in files: %s' % (
        pid, p['title'], p['statement'], p['quantifier']['text'], ', '.join(p['anchors']['files']))
    text = template.replace('@PROPERTY@', prop).replace('@PRIOR@', '\n'.join(prior)).replace('@WT@', wt)
    out = '/tmp/agent%s_task_%s.txt' % (rnd, pid)
    open(out, 'w').write(text)
    print(out, len(prior), 'prior ideas')
