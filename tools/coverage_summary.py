#!/venv/bin/python
"""Measure which lines of scikit_tt the quick tier of all checks executes (generator reach).

    tools/coverage_summary.py [--tier quick]      -> prints per-function coverage, writes notes/coverage_summary.json
Runs every check with VERIF_COVERAGE=1 into a scratch evidence directory (the committed evidence is not touched)."""
import os, sys, ast, json, subprocess, tempfile, shutil, collections
HERE = os.path.dirname(os.path.dirname(os.path.abspath(__file__)))
REPO = os.environ.get('VERIF_REPO', '/repo')
tier = 'quick'
tmp = tempfile.mkdtemp(prefix='verif-cov-', dir='/var/tmp')
stmts, miss = {}, {}
try:
    for i in range(1, 21):
        pid = 'C%02d' % i
        env = dict(os.environ, VERIF_COVERAGE='1', VERIF_EVIDENCE_DIR=tmp, VERIF_REPLAY_DIR=os.path.join(tmp, 'replays'))
        subprocess.run([os.path.join(HERE, 'check'), pid, '--tier', tier], env=env, capture_output=True, text=True)
        ev = json.load(open(os.path.join(tmp, pid + '.json')))
        # raw line sets are not in the evidence; recompute from missing ranges
        for f, v in ev['coverage'].get('line_coverage_all', ev['coverage'].get('line_coverage', {})).items():
            m = set()
            for r in v['missing_lines']:
                a, _, b = r.partition('-')
                m.update(range(int(a), int(b or a) + 1))
            miss[f] = (miss[f] & m) if f in miss else m
            stmts[f] = v['statements']
finally:
    shutil.rmtree(tmp, ignore_errors=True)
out = {}
for f in sorted(miss):
    src = open(os.path.join(REPO, 'scikit_tt', f)).read()
    tree = ast.parse(src)
    funcs = []
    for node in ast.walk(tree):
        if isinstance(node, (ast.FunctionDef,)):
            body_lines = set()
            for n in ast.walk(node):
                if hasattr(n, 'lineno') and not isinstance(n, (ast.Expr,)) or (isinstance(n, ast.Expr) and not isinstance(getattr(n, 'value', None), ast.Constant)):
                    body_lines.add(n.lineno)
            funcs.append((node.name, node.lineno, node.end_lineno))
    rep = {}
    for name, a, b in funcs:
        mm = sorted(l for l in miss[f] if a < l <= b)
        if mm:
            rep['%s:%d' % (name, a)] = mm
    out[f] = rep
    print('== %s: %d statements, %d never executed' % (f, stmts[f], len(miss[f])))
    for k, v in sorted(rep.items(), key=lambda kv: kv[1][0]):
        print('   %-45s %s' % (k, v[:25]))
json.dump(out, open(os.path.join(HERE, 'notes', 'coverage_summary.json'), 'w'), indent=1)
