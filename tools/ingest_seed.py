#!/venv/bin/python
"""Ingest a seeded change produced by an independent sub-agent.

    tools/ingest_seed.py <seed_dir> <name> <PROPERTY> [--tests "tests/test_a.py tests/test_b.py"] [--skip-tests]

<seed_dir> contains patch.diff, demo.py, notes.md.  Steps (all in a scratch export of /repo HEAD under /var/tmp):
  1. demo passes on the unmodified tree;  2. patch applies;  3. demo fails on the patched tree;
  4. the listed existing tests still pass on the patched tree;  5. our quick check is run against the patched tree.
Result is stored as seeded/<name>/{patch.diff, demo.py, notes.md, meta.json}.
"""
import os
import sys
import json
import shutil
import argparse
import tempfile
import subprocess

HERE = os.path.dirname(os.path.dirname(os.path.abspath(__file__)))

DEFAULT_TESTS = {
    'scikit_tt/tensor_train.py': 'tests/test_tensor_train.py tests/test_tensordot.py tests/test_build_core.py',
    'scikit_tt/utils.py': 'tests/test_utils.py tests/test_tedmd.py',
    'scikit_tt/slim.py': 'tests/test_slim.py',
    'scikit_tt/models.py': 'tests/test_models.py',
    'scikit_tt/solvers/sle.py': 'tests/test_sle.py',
    'scikit_tt/solvers/evp.py': 'tests/test_evp.py',
    'scikit_tt/solvers/ode.py': 'tests/test_ode.py',
    'scikit_tt/data_driven/transform.py': 'tests/test_transform.py',
    'scikit_tt/data_driven/regression.py': 'tests/test_regression.py',
    'scikit_tt/data_driven/tdmd.py': 'tests/test_tdmd.py',
    'scikit_tt/data_driven/tedmd.py': 'tests/test_tedmd.py',
    'scikit_tt/data_driven/tgedmd.py': '',
    'scikit_tt/data_driven/ulam.py': 'tests/test_ulam.py',
    'scikit_tt/quantum_computation.py': '',
}


def sh(cmd, env=None, cwd=None, timeout=3600):
    p = subprocess.run(cmd, shell=True, capture_output=True, text=True, env=env, cwd=cwd, timeout=timeout)
    return p.returncode, p.stdout + p.stderr


def main():
    ap = argparse.ArgumentParser()
    ap.add_argument('seed_dir')
    ap.add_argument('name')
    ap.add_argument('prop')
    ap.add_argument('--tests', default=None)
    ap.add_argument('--skip-tests', action='store_true')
    ap.add_argument('--needs', default='')
    args = ap.parse_args()
    pid = args.prop.upper()
    dst = os.path.join(HERE, 'seeded', args.name)
    os.makedirs(dst, exist_ok=True)
    for f in ('patch.diff', 'demo.py', 'notes.md'):
        src = os.path.join(args.seed_dir, f)
        if os.path.exists(src):
            shutil.copy(src, os.path.join(dst, f))
    tree = tempfile.mkdtemp(prefix='verif-seed-', dir='/var/tmp')
    meta = {'property': pid, 'name': args.name, 'ran': []}
    try:
        rc, out = sh('git -C /repo archive HEAD | tar -x -C %s' % tree)
        assert rc == 0, out
        env = dict(os.environ, SCIKIT_TT_TREE=tree, PYTHONPATH=tree, OMP_NUM_THREADS='2', OPENBLAS_NUM_THREADS='2',
                   PYTHONDONTWRITEBYTECODE='1')
        rc0, out0 = sh('/venv/bin/python %s/demo.py' % dst, env=env, cwd=tree, timeout=1800)
        meta['demo_on_clean_tree'] = {'exit': rc0, 'tail': out0[-300:]}
        meta['ran'].append('demo.py on a scratch export of /repo HEAD: exit %d' % rc0)
        rc, out = sh('git apply --check %s/patch.diff && git apply %s/patch.diff' % (dst, dst), cwd=tree)
        if rc != 0:
            rc, out = sh('patch -p1 -i %s/patch.diff' % dst, cwd=tree)
        meta['patch_applies'] = rc == 0
        if rc != 0:
            meta['patch_error'] = out[-500:]
        rc1, out1 = sh('/venv/bin/python %s/demo.py' % dst, env=env, cwd=tree, timeout=1800)
        meta['demo_on_patched_tree'] = {'exit': rc1, 'tail': out1[-500:]}
        meta['ran'].append('demo.py on the patched export: exit %d' % rc1)
        rc, files = sh("grep '^+++ b/' %s/patch.diff | sed 's/^+++ b\\///'" % dst)
        touched = [f.strip() for f in files.splitlines() if f.strip()]
        meta['files'] = touched
        tests = args.tests
        if tests is None:
            tests = ' '.join(sorted({t for f in touched for t in DEFAULT_TESTS.get(f, '').split()}))
        if tests and not args.skip_tests:
            rc, out = sh('/venv/bin/python -m pytest -q -p no:cacheprovider -x --timeout=1800 %s 2>&1 | tail -5' % tests, env=env, cwd=tree,
                         timeout=7200)
            last = [l for l in out.strip().splitlines() if l.strip()][-1] if out.strip() else ''
            ok = (' passed' in last and 'failed' not in last) or ('test_tdmd' in tests and '2 failed' in last)
            meta['existing_tests'] = {'files': tests, 'summary': last, 'ok': ok}
            meta['ran'].append('pytest %s on the patched export: %s' % (tests, last))
        else:
            meta['existing_tests'] = {'files': tests, 'summary': 'not run', 'ok': None}
        cenv = dict(os.environ, VERIF_REPO=tree, VERIF_REPLAY_DIR=os.path.join(tree, '_replays'),
                    VERIF_EVIDENCE_DIR=os.path.join(tree, '_evidence'))
        rc, out = sh('%s/check %s --tier quick' % (HERE, pid), env=cenv, timeout=3600)
        lines = [l for l in out.splitlines() if 'violated clause' in l or 'VIOLATION' in l or 'HARNESS' in l]
        meta['our_quick_check'] = {'exit': rc, 'caught': rc == 1 and ('VIOLATION property=%s' % pid) in out, 'lines': lines[:6]}
        meta['ran'].append('./check %s --tier quick with VERIF_REPO=<patched export>: exit %d' % (pid, rc))
        meta['valid'] = bool(rc0 == 0 and meta['patch_applies'] and rc1 != 0 and meta['existing_tests']['ok'] is not False)
        if args.needs:
            meta['needs_to_manifest'] = args.needs
    finally:
        shutil.rmtree(tree, ignore_errors=True)
    json.dump(meta, open(os.path.join(dst, 'meta.json'), 'w'), indent=1)
    print(json.dumps({k: meta[k] for k in ('name', 'property', 'valid', 'patch_applies', 'existing_tests', 'our_quick_check')}, indent=1))
    print('demo clean exit', meta['demo_on_clean_tree']['exit'], '| demo patched exit', meta['demo_on_patched_tree']['exit'])


if __name__ == '__main__':
    main()
