#!/bin/bash
# tools/run_on_commit.sh <commit> <ID> [check args...]  -- run a check against scikit_tt as of <commit> (scratch export)
set -e
C="$1"; shift
D=$(mktemp -d /var/tmp/verif-old-XXXX)
trap 'rm -rf "$D"' EXIT
git -C /repo archive "$C" scikit_tt | tar -x -C "$D"
HERE="$(cd "$(dirname "${BASH_SOURCE[0]}")/.." && pwd)"
OUT="${VERIF_OUT:-/var/tmp/verif-old-out}"
mkdir -p "$OUT"
set +e
VERIF_REPO="$D" VERIF_REPLAY_DIR="$OUT/replays" VERIF_EVIDENCE_DIR="$OUT/evidence" "$HERE/check" "$@"
echo "exit=$?"
