#!/venv/bin/python
"""Sensitivity self-test: apply each small mutation of scikit_tt to a scratch copy of the package (outside /repo and
/verif), run the property's quick check against the copy and expect exit 1 with a VIOLATION line.

    tools/selftest.py [ID ...] [--only NAME] [--tier quick]

Mutations live in mutants/<id>.json: [{"name":..., "file": "scikit_tt/...py", "old": "...", "new": "...", "count": 1}].
Seeded changes written by independent sub-agents live in seeded/<name>/patch.diff and are run with --seeded.
"""
import os
import sys
import json
import glob
import shutil
import argparse
import tempfile
import subprocess

HERE = os.path.dirname(os.path.dirname(os.path.abspath(__file__)))
REPO = '/repo'


def scratch_copy():
    d = tempfile.mkdtemp(prefix='verif-mut-', dir='/var/tmp')
    shutil.copytree(os.path.join(REPO, 'scikit_tt'), os.path.join(d, 'scikit_tt'),
                    ignore=shutil.ignore_patterns('__pycache__'))
    return d


def run_check(pid, tree, tier, seed='1', extra=()):
    env = dict(os.environ)
    env.update({'VERIF_REPO': tree, 'VERIF_REPLAY_DIR': os.path.join(tree, 'replays'),
                'VERIF_EVIDENCE_DIR': os.path.join(tree, 'evidence'), 'VERIF_SEED': seed})
    p = subprocess.run([os.path.join(HERE, 'check'), pid, '--tier', tier] + list(extra), env=env, capture_output=True, text=True)
    return p.returncode, p.stdout + p.stderr


def main():
    ap = argparse.ArgumentParser()
    ap.add_argument('ids', nargs='*')
    ap.add_argument('--only', default=None)
    ap.add_argument('--tier', default='quick')
    ap.add_argument('--seeded', action='store_true')
    ap.add_argument('-v', action='store_true')
    args = ap.parse_args()
    bad = 0
    total = 0
    if args.seeded:
        for meta_path in sorted(glob.glob(os.path.join(HERE, 'seeded', '*', 'meta.json'))):
            meta = json.load(open(meta_path))
            name = os.path.basename(os.path.dirname(meta_path))
            pid = meta['property']
            if args.ids and pid not in args.ids:
                continue
            if args.only and args.only != name:
                continue
            tree = scratch_copy()
            try:
                p = subprocess.run(['patch', '-p1', '-s', '-d', tree, '-i', os.path.join(os.path.dirname(meta_path), 'patch.diff')],
                                   capture_output=True, text=True)
                if p.returncode != 0:
                    print('%-4s %-40s PATCH DOES NOT APPLY: %s' % (pid, name, p.stdout + p.stderr))
                    bad += 1
                    continue
                # a change is caught if the check of its own property reports it, or -- when meta.json names other checks under
                # 'check_with' (the defect lives in code another property is anchored in) -- one of those
                total += 1
                ok, by = False, ''
                for q in meta.get('check_with', [pid]):
                    rc, out = run_check(q, tree, args.tier)
                    if rc == 1 and 'VIOLATION property=%s' % q in out:
                        ok, by = True, ('' if q == pid else ' by ' + q)
                        break
                if not ok and meta.get('open_miss'):
                    # a seeded change the checks do not catch and that was left open (documented in DESIGN 9.2): listed, not hidden
                    print('%-4s %-40s MISSED, left open (%s)' % (pid, name, meta['open_miss']))
                    continue
                if not ok and meta.get('out_of_domain'):
                    # the change only shows on inputs on which the unchanged tree does not satisfy the property either (documented
                    # domain limit): no sound check can decide it -- listed, not counted
                    print('%-4s %-40s not decided (outside the domain of the check: %s)' % (pid, name, meta['out_of_domain']))
                    continue
                print('%-4s %-40s %s' % (pid, name, ('caught' + by) if ok else 'MISSED (exit %d)' % rc))
                if args.v or not ok:
                    print('\n'.join('      ' + l for l in out.splitlines() if 'violated' in l or 'VIOLATION' in l or 'HARNESS' in l)[:3000])
                bad += 0 if ok else 1
                qc = meta.get('our_quick_check', {})
                if ok and not qc.get('caught', True):
                    # missed when it was ingested, caught by the strengthened check: keep the first record, store the new one
                    meta['first_quick_check'] = qc
                    meta['our_quick_check'] = {'exit': 1, 'caught': True, 'by': by.strip() or pid, 'lines': [
                        l.replace(tree, '<patched export>') for l in out.splitlines() if 'violated' in l or 'VIOLATION' in l][:6]}
                    json.dump(meta, open(meta_path, 'w'), indent=1)
            finally:
                shutil.rmtree(tree, ignore_errors=True)
        print('%d seeded changes, %d missed' % (total, bad))
        return 1 if bad else 0

    files = sorted(glob.glob(os.path.join(HERE, 'mutants', '*.json')))
    for f in files:
        pid = os.path.basename(f)[:-5].upper()
        if args.ids and pid not in [i.upper() for i in args.ids]:
            continue
        for m in json.load(open(f)):
            if args.only and m['name'] != args.only:
                continue
            tree = scratch_copy()
            try:
                path = os.path.join(tree, m['file'])
                src = open(path).read()
                cnt = src.count(m['old'])
                if cnt != m.get('count', 1):
                    print('%-4s %-40s PATTERN FOUND %d TIMES (expected %d)' % (pid, m['name'], cnt, m.get('count', 1)))
                    bad += 1
                    continue
                open(path, 'w').write(src.replace(m['old'], m['new']))
                rc, out = run_check(pid, tree, args.tier)
                total += 1
                ok = rc == 1 and 'VIOLATION property=%s' % pid in out
                print('%-4s %-40s %s' % (pid, m['name'], 'caught' if ok else 'MISSED (exit %d)' % rc))
                if args.v or not ok:
                    print('\n'.join('      ' + l for l in out.splitlines() if 'violated' in l or 'VIOLATION' in l or 'HARNESS' in l)[:3000])
                bad += 0 if ok else 1
            finally:
                shutil.rmtree(tree, ignore_errors=True)
    print('%d mutants, %d missed' % (total, bad))
    return 1 if bad else 0


if __name__ == '__main__':
    sys.exit(main())
