import numpy as np, scipy.linalg as sl
from h import *
import scikit_tt.solvers.ode as ode
rng=np.random.default_rng(21)
st={}
for trial in range(120):
    d=int(rng.integers(2,5)); dims=[int(rng.integers(2,4)) for _ in range(d)]; N=int(np.prod(dims)); cplx=bool(rng.integers(2))
    if N>100: continue
    H,lam,Q=rand_herm(rng,N,cplx,-1,1); Htt=op_from_mat(H,dims)
    mr=maxranks(dims); kind=rng.integers(3)
    ranks=mr if kind==0 else ([1]*(d+1) if kind==1 else [1]+[min(2,m) for m in mr[1:-1]]+[1])
    x0=rtt(rng,dims,[1]*d,ranks,True); x0=(1/x0.norm())*x0; x0=x0.ortho_right()
    cap=[50,2,3][rng.integers(3)]; h=0.2; n=3
    try:
        sol=ode.tdvp(Htt,x0,h,n,max_rank=cap)
    except Exception as e:
        k='EXC '+type(e).__name__; st[k]=st.get(k,0)+1
        if st[k]<3: print(k,dims,ranks,cap,str(e)[:80])
        continue
    ex=[sl.expm(-1j*h*k*H)@x0.matricize() for k in range(n+1)]
    err=max(np.linalg.norm(s.matricize()-e) for s,e in zip(sol,ex)); nrm=max(abs(np.linalg.norm(s.matricize())-1) for s in sol)
    en=lambda v: np.real(v.conj()@H@v); ee=max(abs(en(s.matricize())-en(ex[0])) for s in sol)
    k=('max' if kind==0 else 'low')+' cap%d'%cap+(' exact' if err<1e-9 else ' inexact')+(' norm' if nrm<1e-9 else ' NONORM')
    st[k]=st.get(k,0)+1
print(st)
