import numpy as np, scipy.linalg as sl, math, warnings
from h import *
import scikit_tt.solvers.ode as ode, scikit_tt.tensor_train as tt
rng=np.random.default_rng(16)
def rand_generator(rng,N):
    G=rng.uniform(0,1,(N,N)); np.fill_diagonal(G,0); G-=np.diag(G.sum(axis=0)); return G
st={}
def rec(key,ok,info=None):
    k=key+(' ok' if ok else ' BAD'); st[k]=st.get(k,0)+1
    if not ok and st[k]<3: print(k,info)
for trial in range(30):
    dims=[int(rng.integers(2,4)) for _ in range(rng.integers(2,4))]; N=int(np.prod(dims)); d=len(dims)
    G=rand_generator(rng,N); Gtt=op_from_mat(G,dims)
    p0=rng.uniform(0.1,1,N); p0/=p0.sum(); x0=vec_from(p0,dims); g0=rtt(rng,dims,[1]*d,maxranks(dims))
    hs=[float(h) for h in rng.uniform(0.01,0.2,3)/np.abs(G).max()]
    for normalize in [0,1,2]:
        nrm=lambda v: v if normalize==0 else (v/v.sum() if normalize==1 else v/np.linalg.norm(v))
        # explicit
        sol=ode.explicit_euler(Gtt,x0,hs,normalize=normalize,progress=False); v=p0.copy(); e=0
        for k,h in enumerate(hs): v=nrm(v+h*G@v); e=max(e,np.abs(sol[k+1].matricize()-v).max())
        rec('expl n%d'%normalize,e<1e-10 and len(sol)==len(hs)+1,e)
        for solver,ms in [('als','solve'),('als','lu'),('mals','solve')]:
            sol=ode.implicit_euler(Gtt,x0,g0,hs,tt_solver=solver,micro_solver=ms,normalize=normalize,progress=False); v=p0.copy(); e=0
            for k,h in enumerate(hs): v=nrm(np.linalg.solve(np.eye(N)-h*G,v)); e=max(e,np.abs(sol[k+1].matricize()-v).max())
            rec('impl n%d %s'%(normalize,solver),e<1e-9,e)
            sol=ode.trapezoidal_rule(Gtt,x0,g0,hs,tt_solver=solver,micro_solver=ms,normalize=normalize,progress=False); v=p0.copy(); e=0
            for k,h in enumerate(hs): v=nrm(np.linalg.solve(np.eye(N)-h/2*G,(np.eye(N)+h/2*G)@v)); e=max(e,np.abs(sol[k+1].matricize()-v).max())
            rec('trap n%d %s'%(normalize,solver),e<1e-9,e)
    # errors on arbitrary lists
    lst=[rtt(rng,dims,[1]*d,[1]+[2]*(d-1)+[1]) for _ in range(3)]; vs=[t.matricize() for t in lst]; I=np.eye(N)
    ee=ode.errors_expl_euler(Gtt,lst,hs); oo=[np.linalg.norm(vs[i+1]-(I+hs[i]*G)@vs[i])/np.linalg.norm(vs[i]) for i in range(2)]
    rec('err expl',np.allclose(ee,oo,rtol=1e-9),(ee,oo))
    ee=ode.errors_impl_euler(Gtt,lst,hs); oo=[np.linalg.norm((I-hs[i]*G)@vs[i+1]-vs[i])/np.linalg.norm(vs[i]) for i in range(2)]
    rec('err impl',np.allclose(ee,oo,rtol=1e-9),(ee,oo))
    ee=ode.errors_trapezoidal(Gtt,lst,hs); oo=[np.linalg.norm((I-hs[i]/2*G)@vs[i+1]-(I+hs[i]/2*G)@vs[i])/np.linalg.norm((I+hs[i]/2*G)@vs[i]) for i in range(2)]
    rec('err trap',np.allclose(ee,oo,rtol=1e-9),(ee,oo))
    # hod
    Att=rtt(rng,dims,dims,[1]+[2]*(d-1)+[1],True); Att=(1/np.linalg.norm(Att.matricize(),2))*Att; A=Att.matricize(); psi0=rtt(rng,dims,[1]*d,maxranks(dims),True); psi0=(1/psi0.norm())*psi0; v0=psi0.matricize()
    for order in [2,4,6]:
      for normalize in [0,2]:
        h=0.05; n=3
        sol=ode.hod(Att,psi0,h,n,order=order,normalize=normalize,progress=False,max_rank=100)
        nrm=lambda v: v if normalize==0 else v/np.linalg.norm(v)
        def series(hh): return sum(2/math.factorial(2*k-1)*hh**(2*k-1)*np.linalg.matrix_power(A,2*k-1) for k in range(1,order//2+1))
        vm=(np.eye(N)-0.5*h*A)@v0; vm=v0-series(h/2)@vm; vm=nrm(vm)
        prev,cur=vm,v0; e=0
        for k in range(n):
            nxt=nrm(prev+series(h)@cur); e=max(e,np.abs(sol[k+1].matricize()-nxt).max()); prev,cur=cur,nxt
        rec('hod o%d n%d'%(order,normalize),e<1e-9,e)
    # adaptive
    with warnings.catch_warnings():
        warnings.simplefilter("ignore")
        x00=x0.full().copy(); g00=g0.full().copy(); G00=Gtt.full().copy()
        sol,ts=ode.adaptive_step_size(Gtt,x0,g0,time_end=1.0/np.abs(G).max(),step_size_first=1e-3/np.abs(G).max(),progress=False,second_method=['two_step_Euler','trapezoidal_rule'][trial%2])
    ok=all(b>a for a,b in zip(ts,ts[1:])) and ts[-1]<=1.0/np.abs(G).max()+1e-15 and len(sol)==len(ts) and np.abs(x0.full()-x00).max()==0 and np.abs(g0.full()-g00).max()==0 and np.abs(Gtt.full()-G00).max()==0
    rec('adaptive',ok,(ts,))
print(st)
