import numpy as np, warnings
from h import *
import scikit_tt.solvers.sle as sle
rng=np.random.default_rng(4)
for cplx in [False,True]:
  for dims in [[2,2],[2,3,2],[3],[2,2,2,2]]:
    N=int(np.prod(dims)); A,lam,Q=rand_herm(rng,N,cplx)
    Att=op_from_mat(A,dims); 
    b=rng.standard_normal(N)+(1j*rng.standard_normal(N) if cplx else 0); btt=vec_from(b,dims)
    xs=np.linalg.solve(A,b)
    en=lambda x: np.sqrt(np.real((x-xs).conj()@A@(x-xs)))
    d=len(dims)
    for ranks in [maxranks(dims),[1]+[1]*(d-1)+[1],[1]+[2]*(d-1)+[1]]:
        if any(r>m for r,m in zip(ranks,maxranks(dims))): continue
        g=rtt(rng,dims,[1]*d,ranks,cplx); g0=g.full().copy()
        for solver in ['solve','lu']:
            errs=[en(g.matricize())]
            for rep in [1,2,3]:
                x=sle.als(Att,g,btt,repeats=rep,solver=solver); errs.append(en(x.matricize()))
            print(cplx,dims,ranks,solver,"ALS errs",["%.2e"%e for e in errs], x.ranks, np.abs(g.full()-g0).max())
            if d>=2:
                errs=[en(g.matricize())]
                for rep in [1,2]:
                    x=sle.mals(Att,g,btt,repeats=rep,solver=solver); errs.append(en(x.matricize()))
                print(cplx,dims,ranks,solver,"MALS errs",["%.2e"%e for e in errs], x.ranks)
    # exact solution as guess with low rank: make b from low-rank x
    xl=rtt(rng,dims,[1]*d,[1]+[1]*(d-1)+[1],cplx); bl=A@xl.matricize(); 
    x=sle.als(Att,xl,vec_from(bl,dims)); print("  fixed point ALS", np.linalg.norm(x.matricize()-xl.matricize())/np.linalg.norm(xl.matricize()))
    if d>=2:
        x=sle.mals(Att,xl,vec_from(bl,dims)); print("  fixed point MALS", np.linalg.norm(x.matricize()-xl.matricize())/np.linalg.norm(xl.matricize()), x.ranks)
