import numpy as np, itertools, warnings
import scikit_tt.data_driven.transform as tdt, scikit_tt.data_driven.regression as reg
from scikit_tt.tensor_train import TT
rng=np.random.default_rng(10)
def rand_fun(idx):
    k=rng.integers(6)
    if k==0: return tdt.ConstantFunction(idx)
    if k==1: return tdt.Identity(idx)
    if k==2: return tdt.Monomial(idx,int(rng.integers(0,4)))
    if k==3: return tdt.Legendre(idx,int(rng.integers(0,4)),domain=float(rng.uniform(1,2)))
    if k==4: return tdt.Sin(idx,float(rng.uniform(0.5,2)))
    return tdt.GaussFunction(idx,float(rng.uniform(-1,1)),float(rng.uniform(0.3,1)))
def dense_psi(x,basis):
    m=x.shape[1]; n=[len(b) for b in basis]; P=np.zeros(n+[m])
    for j in range(m):
        for idx in itertools.product(*[range(k) for k in n]):
            P[idx+(j,)]=np.prod([basis[k][idx[k]](x[:,j]) for k in range(len(n))])
    return P
worst=0; bad=0; rk=[]
for trial in range(150):
    d=int(rng.integers(1,4)); m=int(rng.integers(1,7)); p=int(rng.integers(1,4))
    x=rng.uniform(-1,1,(d,m))
    basis=[[rand_fun(int(rng.integers(d))) for _ in range(rng.integers(1,4))] for _ in range(p)]
    P=dense_psi(x,basis)
    t=tdt.basis_decomposition(x,basis); e1=np.abs(t.full().reshape(P.shape)-P).max()
    G=tdt.gram(x,x,basis); Pm=P.reshape(-1,m); e2=np.abs(G-Pm.T@Pm).max()
    with warnings.catch_warnings():
        warnings.simplefilter("ignore")
        try:
            h=tdt.hocur(x,basis,ranks=m,repeats=int(rng.integers(1,3)),multiplier=10,progress=False)
            e3=np.abs(h.full().reshape(P.shape)-P).max()/max(1e-300,np.abs(P).max())
        except Exception as ex:
            e3=np.inf; print("HOCUR EXC",type(ex).__name__,str(ex)[:80],"d,m,p",d,m,p,[len(b) for b in basis])
    worst=max(worst,e1,e2)
    if e3>1e-8:
        bad+=1
        if bad<=8:
            # true ranks
            tr=[np.linalg.matrix_rank(P.reshape(int(np.prod(P.shape[:k])),-1)) for k in range(1,P.ndim)]
            sv=[np.linalg.svd(P.reshape(int(np.prod(P.shape[:k])),-1),compute_uv=False) for k in range(1,P.ndim)]
            print("HOCUR inexact e=%.1e"%e3,"m",m,"n",[len(b) for b in basis],"ranks",h.ranks if np.isfinite(e3) else None,"true",tr, "minsv/maxsv", ["%.1e"%(s[r-1]/s[0]) for s,r in zip(sv,tr)])
print("worst basis/gram err",worst,"hocur bad",bad,"/150")
