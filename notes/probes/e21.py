import numpy as np
import scikit_tt.data_driven.transform as tdt
rng=np.random.default_rng(17)
worst={}
for trial in range(400):
    d=int(rng.integers(1,4)); idx=int(rng.integers(d))
    fams={'const':lambda: tdt.ConstantFunction(idx,d),'id':lambda: tdt.Identity(idx,d),'mono':lambda: tdt.Monomial(idx,int(rng.integers(0,6)),prefactor=float(rng.uniform(-2,2)),dimension=d),
     'leg':lambda: tdt.Legendre(idx,int(rng.integers(0,7)),domain=float(rng.uniform(0.5,3)),dimension=d),'sin':lambda: tdt.Sin(idx,float(rng.uniform(-3,3)),d),'cos':lambda: tdt.Cos(idx,float(rng.uniform(-3,3)),d),
     'gauss':lambda: tdt.GaussFunction(idx,float(rng.uniform(-1,1)),float(rng.uniform(0.2,2)),d),'pgauss':lambda: tdt.PeriodicGaussFunction(idx,float(rng.uniform(-1,1)),float(rng.uniform(0.2,2)),d)}
    for name,mk in fams.items():
        f=mk(); x=rng.uniform(-1,1,d); h=1e-20
        for k in range(d):
            xc=x.astype(complex); xc[k]+=1j*h
            num=np.imag(f(xc))/h; e=abs(f.partial(x,k)-num)/max(1,abs(num)); worst[name+' p']=max(worst.get(name+' p',0),e)
            if name!='pgauss':
                for k2 in range(d):
                    xc=x.astype(complex); xc[k2]+=1j*h
                    num2=np.imag(f.partial(xc,k))/h; e=abs(f.partial2(x,k,k2)-num2)/max(1,abs(num2)); worst[name+' p2']=max(worst.get(name+' p2',0),e)
        g=f.gradient(x); e=max(abs(g[k]-f.partial(x,k)) for k in range(d)); worst[name+' grad']=max(worst.get(name+' grad',0),e)
        if name!='pgauss':
            H=f.hessian(x); e=max(abs(H[a,b]-f.partial2(x,a,b)) for a in range(d) for b in range(d)); worst[name+' hess']=max(worst.get(name+' hess',0),e)
        X=rng.uniform(-1,1,(d,5)); va=np.asarray(f(X)); vp=np.array([f(X[:,j]) for j in range(5)]); worst[name+' vec']=max(worst.get(name+' vec',0),np.abs(va-vp).max())
# bspline
for trial in range(100):
    deg=int(rng.integers(1,4)); nk=int(rng.integers(2,6)); knots=np.sort(rng.uniform(-1,1,nk+1)); knots[0]=-1; knots[-1]=1
    if np.min(np.diff(knots))<0.05: continue
    coeff=rng.standard_normal(nk+deg); f=tdt.Bspline(0,knots,deg,coeff,1)
    t=rng.uniform(-0.99,0.99); 
    if np.min(abs(t-knots))<0.02: continue
    h=1e-4; num=(f(np.array([t+h]))-f(np.array([t-h])))/(2*h); num2=(f(np.array([t+h/2]))-f(np.array([t-h/2])))/h; rich=(4*num2-num)/3
    e=abs(f.partial(np.array([t]),0)-rich)/max(1,abs(rich)); worst['bspline p']=max(worst.get('bspline p',0),e)
for k,v in sorted(worst.items()): print(k,"%.1e"%v)
