import numpy as np, itertools, warnings
import scikit_tt.data_driven.transform as tdt, scikit_tt.data_driven.regression as reg
from scikit_tt.tensor_train import TT
from h import rtt
rng=np.random.default_rng(11)
# mandy_cm
st={}
for trial in range(200):
    d=int(rng.integers(1,4)); m=int(rng.integers(1,12)); p=int(rng.integers(1,4))
    x=rng.uniform(-1,1,(d,m)); y=rng.standard_normal((d,m))
    if rng.integers(4)==0 and m>1: x[:,-1]=x[:,0]   # duplicate snapshot -> rank deficient
    phi=[lambda t,a=a: np.sin(a*t)+0.3*a for a in rng.uniform(0.5,2,p)]
    N=p**d
    Psi=np.zeros([p]*d+[m])
    for j in range(m):
        for idx in itertools.product(range(p),repeat=d):
            Psi[idx+(j,)]=np.prod([phi[idx[k]](x[k,j]) for k in range(d)])
    Pm=Psi.reshape(N,m); s=np.linalg.svd(Pm,compute_uv=False)
    ratios=s/s[0]
    thr=1e-9 if (ratios<1e-6).any() else 0.0
    if ((ratios>1e-12)&(ratios<1e-6)).any(): st['skip']=st.get('skip',0)+1; continue
    xi=reg.mandy_cm(x,y,phi,threshold=thr)
    X=xi.full().reshape(N,d); O=(y@np.linalg.pinv(Pm,rcond=max(thr,1e-13))).T
    e=np.abs(X-O).max()/max(1,np.abs(O).max()); k='cm ok' if e<1e-7 else 'cm BAD'
    st[k]=st.get(k,0)+1
    if e>=1e-7 and st[k]<4: print("cm bad",d,m,p,thr,e,ratios)
    # function major
    psi=None
    for add_one in [True,False]:
        xi=reg.mandy_fm(x,y,phi,threshold=thr,add_one=add_one)
        n=d+add_one; Psi2=np.zeros([n]*p+[m])
        for j in range(m):
            vecs=[np.array(([1.0] if add_one else [])+[phi[i](x[k,j]) for k in range(d)]) for i in range(p)]
            for idx in itertools.product(range(n),repeat=p):
                Psi2[idx+(j,)]=np.prod([vecs[i][idx[i]] for i in range(p)])
        Pm2=Psi2.reshape(-1,m); s2=np.linalg.svd(Pm2,compute_uv=False); r2=s2/s2[0]
        if ((r2>1e-12)&(r2<1e-6)).any(): continue
        thr2=1e-9 if (r2<1e-6).any() else 0.0
        xi=reg.mandy_fm(x,y,phi,threshold=thr2,add_one=add_one)
        O=(y@np.linalg.pinv(Pm2,rcond=max(thr2,1e-13))).T; X=xi.full().reshape(O.shape)
        e=np.abs(X-O).max()/max(1,np.abs(O).max()); k='fm ok' if e<1e-7 else 'fm BAD'; st[k]=st.get(k,0)+1
        if e>=1e-7 and st[k]<4: print("fm bad",d,m,p,add_one,thr2,e,r2)
print(st)
# mandy_kb and arr
st={}
for trial in range(60):
    d=int(rng.integers(1,3)); m=int(rng.integers(2,7)); p=int(rng.integers(2,4))
    x=rng.uniform(-1,1,(d,m)); y=rng.standard_normal((2,m))
    basis=[[tdt.ConstantFunction(0)]+[tdt.Sin(int(rng.integers(d)),float(rng.uniform(0.5,2))) for _ in range(rng.integers(1,3))] for _ in range(p)]
    n=[len(b) for b in basis]
    Psi=np.zeros(n+[m])
    for j in range(m):
        for idx in itertools.product(*[range(k) for k in n]): Psi[idx+(j,)]=np.prod([basis[k][idx[k]](x[:,j]) for k in range(p)])
    Pm=Psi.reshape(-1,m); G=Pm.T@Pm
    if np.linalg.cond(G)>1e8: st['kb skip']=st.get('kb skip',0)+1
    else:
        z=reg.mandy_kb(x,y,basis); fit=z@G; fit2=y@np.linalg.pinv(Pm)@Pm
        e=np.abs(fit-fit2).max(); k='kb ok' if e<1e-6 else 'kb BAD'; st[k]=st.get(k,0)+1
    # arr
    ranks=[1]+[2]*(p-1)+[1]
    ranks=[1]+[min(ranks[i],int(np.prod(n[:i])),int(np.prod(n[i:]))) for i in range(1,p)]+[1]
    g=rtt(rng,n,[1]*p,ranks); g0=g.full().copy()
    res=[]
    for rep in [1,2,3]:
        with warnings.catch_warnings():
            warnings.simplefilter("ignore")
            sol=reg.arr(x,y,basis,g,repeats=rep,rcond=1e-13,progress=False)
        res.append([np.linalg.norm(sol[k].full().reshape(-1)@Pm-y[k]) for k in range(2)])
    res=np.array(res); mono=(res[1:]<=res[:-1]*(1+1e-8)+1e-10).all(); k='arr mono' if mono else 'arr NONMONO'; st[k]=st.get(k,0)+1
    if not mono and st[k]<4: print(res, ranks, n, m)
    st['arr ranks kept' if all(s.ranks==ranks for s in sol) else 'arr ranks changed']=st.get('arr ranks kept' if all(s.ranks==ranks for s in sol) else 'arr ranks changed',0)+1
    if np.abs(g.full()-g0).max()>0: st['guess changed']=st.get('guess changed',0)+1
print(st)
