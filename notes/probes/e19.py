import numpy as np, scipy.linalg as sl, math, warnings
from h import *
import scikit_tt.solvers.ode as ode, scikit_tt.tensor_train as tt
rng=np.random.default_rng(15)
def emb(K,i,dims,two):
    # embed operator K acting on site i (and i+1 if two) 
    left=int(np.prod(dims[:i])); span=dims[i]*(dims[i+1] if two else 1); right=int(np.prod(dims[i+(2 if two else 1):]))
    return np.kron(np.kron(np.eye(left),K),np.eye(right))
st={}
for trial in range(40):
    d=int(rng.integers(2,6)); hom=bool(rng.integers(2)); cplx=bool(rng.integers(2)); rk=int(rng.integers(1,3)); skew=bool(rng.integers(2))
    if hom: dims=[int(rng.integers(2,4))]*d
    else: dims=[int(rng.integers(2,4)) for _ in range(d)]
    def rm(n): 
        M=rng.standard_normal((n,n))+(1j*rng.standard_normal((n,n)) if cplx else 0); return M
    if hom:
        n=dims[0]; S=rm(n); L=np.stack([rm(n) for _ in range(rk)],axis=-1); M=np.stack([rm(n) for _ in range(rk)]); I=np.eye(n)
        if skew:
            S=S-S.conj().T; Ls=[rm(n) for _ in range(rk)]; L=np.stack([l+l.conj().T for l in Ls],axis=-1)*1j; M=np.stack([ (lambda q:q+q.conj().T)(rm(n)) for _ in range(rk)])
        Sl=[S]*d; Ll=[L]*d; Ml=[M]*d; Il=[I]*d
        args=(S,L,I,M)
    else:
        Sl=[rm(n) for n in dims]; Ll=[np.stack([rm(n) for _ in range(rk)],axis=-1) for n in dims]; Ml=[np.stack([rm(n) for _ in range(rk)]) for n in dims]; Il=[np.eye(n) for n in dims]
        if skew:
            Sl=[s-s.conj().T for s in Sl]; Ll=[1j*np.stack([(lambda q:q+q.conj().T)(rm(n)) for _ in range(rk)],axis=-1) for n in dims]; Ml=[np.stack([(lambda q:q+q.conj().T)(rm(n)) for _ in range(rk)]) for n in dims]
        args=([s.copy() for s in Sl],[l.copy() for l in Ll],[i.copy() for i in Il],[m.copy() for m in Ml])
    N=int(np.prod(dims))
    Ae=np.zeros((N,N),dtype=complex); Ao=np.zeros((N,N),dtype=complex)
    for i in range(d-1):
        K=np.kron(Sl[i],Il[i+1])+sum(np.kron(Ll[i][:,:,k],Ml[i+1][k]) for k in range(rk))
        (Ae if i%2==0 else Ao).__iadd__(emb(K,i,dims,True))
    ((Ae if (d-1)%2==0 else Ao)).__iadd__(emb(Sl[-1],d-1,dims,False))
    A=Ae+Ao; sc=np.linalg.norm(A,2)
    h=0.4/sc; nsteps=2
    x0=rtt(rng,dims,[1]*d,[1]+[2]*(d-1)+[1],cplx); x0=(1/x0.norm())*x0; v0=x0.matricize().astype(complex)
    E=lambda M,c: sl.expm(c*h*M)
    strang=lambda c: E(Ae,c/2)@E(Ao,c)@E(Ae,c/2)
    g1=1/(2-2**(1/3)); g2=-2**(1/3)/(2-2**(1/3))
    oracles={'lie':E(Ao,1)@E(Ae,1),'strang':strang(1),'yoshida':strang(g1)@strang(g2)@strang(g1)}
    fns={'lie':lambda h_,n_: ode.lie_splitting(*args,x0,h_,n_,normalize=0,max_rank=100),'strang':lambda h_,n_: ode.strang_splitting(*args,x0,h_,n_,max_rank=100),'yoshida':lambda h_,n_: ode.yoshida_splitting(*args,x0,h_,n_,max_rank=100),'kl':lambda h_,n_: ode.kahan_li_splitting(*args,x0,h_,n_,max_rank=100)}
    for name in ['lie','strang','yoshida']:
        sol=fns[name](h,nsteps); v=v0.copy(); err=0
        for k in range(1,nsteps+1):
            v=oracles[name]@v; err=max(err,np.linalg.norm(sol[k].matricize()-v))
        key=name+(' ok' if err<1e-9 else ' BAD'); st[key]=st.get(key,0)+1
        if err>=1e-9 and st[key]<3: print(name,dims,hom,cplx,err)
        if skew:
            nn=max(abs(np.linalg.norm(s.matricize())-1) for s in sol); key=name+(' norm ok' if nn<1e-9 else ' norm BAD'); st[key]=st.get(key,0)+1
    # order
    T=1.0/sc*2; ex=sl.expm(T*A)@v0
    for name,p in [('lie',1),('strang',2),('yoshida',4),('kl',6)]:
        errs=[]
        for n_ in ([4,8] if name!='kl' else [1,2]):
            errs.append(np.linalg.norm(fns[name](T/n_,n_)[-1].matricize()-ex))
        order=np.log2(errs[0]/errs[1]) if errs[1]>0 else np.inf
        key=name+' order>=%d-0.5 '%p+str(order>=p-0.5 or errs[1]<1e-11); st[key]=st.get(key,0)+1
        if not (order>=p-0.5 or errs[1]<1e-11) and st[key]<4: print(name,dims,"errs",errs,"order",order)
print(st)
