import numpy as np, warnings
from h import *
import scikit_tt.solvers.evp as evp
rng=np.random.default_rng(6)
def gauge(t, rng, cplx):
    cores=[c.copy() for c in t.cores]
    for i in range(t.order-1):
        r=t.ranks[i+1]; G=rng.standard_normal((r,r))+(1j*rng.standard_normal((r,r)) if cplx else 0)+2*np.eye(r)
        cores[i]=np.tensordot(cores[i],G,axes=(3,0)); cores[i+1]=np.tensordot(np.linalg.inv(G),cores[i+1],axes=(1,0))
    return TT(cores)
for cplx in [False,True]:
  for dims in [[2,3,2],[2,2,2,2]]:
    N=int(np.prod(dims)); d=len(dims)
    A,lam,Q=rand_herm(rng,N,cplx,-2,3); 
    v=rtt(rng,dims,[1]*d,[1]+[2]*(d-1)+[1],cplx); vv=v.matricize(); vv/=np.linalg.norm(vv)
    P=np.eye(N)-np.outer(vv,vv.conj()); A2=P@A@P*0.3+5*np.outer(vv,vv.conj()); A2tt=op_from_mat(A2,dims)
    g=gauge(v,rng,cplx)
    for solver in ['eig','eigh']:
        for name,guess in [('gauged',g),('rortho',g.copy().ortho_right())]:
            for rep in [1,3]:
                ev,x,it=evp.als(A2tt,guess,repeats=rep,solver=solver,sigma=5.0,conv_eps=0)
                print(cplx,dims,solver,name,rep,"ev=%.6f"%np.real(ev),"1-overlap=%.1e"%(1-abs(np.vdot(x.matricize(),vv))))
