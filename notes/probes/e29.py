import numpy as np, warnings
from h import *
import scikit_tt.solvers.evp as evp, scikit_tt.models as mdl
rng=np.random.default_rng(24)
st={}
def rec(k): st[k]=st.get(k,0)+1
for trial in range(60):
    d=int(rng.integers(2,4)); dims=[int(rng.integers(2,4)) for _ in range(d)]; N=int(np.prod(dims)); cplx=False
    lam=np.sort(rng.uniform(-2,2,N)); 
    if np.min(np.diff(lam))<0.02: rec('skip gap'); continue
    A=rng.standard_normal((N,N)); Q,_=np.linalg.qr(A); A=(Q*lam)@Q.T; Att=op_from_mat(A,dims)
    j=int(rng.integers(N)); sigma=lam[j]+rng.uniform(-0.3,0.3)*min(np.diff(lam).min(),1)
    dist=np.abs(lam-sigma); o=np.argsort(dist); rho=dist[o[0]]/dist[o[1]]
    g=rtt(rng,dims,[1]*d,maxranks(dims)); gv=g.matricize(); v=Q[:,o[0]]
    c0=abs(v@gv)/np.linalg.norm(gv); tan0=np.sqrt(max(1-c0**2,0))/max(c0,1e-300)
    k=int(rng.integers(1,12))
    ev,x=evp.power_method(Att,g,repeats=k,sigma=sigma); xv=x.matricize()
    c=abs(v@xv)/np.linalg.norm(xv); tank=np.sqrt(max(1-c**2,0))/max(c,1e-300)
    ok=tank<=rho**k*tan0*(1+1e-6)+1e-7
    rqok=abs(ev-(xv@A@xv)/(xv@xv))<1e-10
    rec('bound %s rq %s'%(ok,rqok))
    if not ok and st.get('p',0)<3: rec('p'); print(dims,k,rho,tan0,tank,rho**k*tan0)
print(st)
# transfer-matrix unitarity
def gram_defect(g):
    # ||G^H G - I||_F^2 via explicit TT of G^H G - I contracted with itself
    N=np.prod([float(n) for n in g.row_dims])
    E1=np.ones((1,1)); 
    for c in g.cores: E1=np.einsum('ab,amnc,bmnd->cd',E1,c.conj(),c)   # tr(G^H G)
    # tr((G^H G)^2) = sum over (G^H G)_{ij} (G^H G)_{ji}: 4 copies
    E2=np.ones((1,1,1,1))
    for c in g.cores:
        # (G^H G)_{ij} = sum_k conj(G_ki) G_kj ; (G^H G)_{ji} = sum_l conj(G_lj) G_li
        E2=np.einsum('abcd,akie,bkjf,cljg,dlih->efgh',E2,c.conj(),c,c.conj(),c)
    return E2[0,0,0,0].real-2*E1[0,0].real+N
for a in [2,7,11]:
    print("shor",a,gram_defect(mdl.shor(a)))
for k in [1,2,4,5]:
    print("qfan",k,gram_defect(mdl.qfan(k)))
for n in [3,6]:
    print("qft",n,[gram_defect(G) for G in mdl.qft(n)])
import scikit_tt.tensor_train as tt
print("non-unitary control", gram_defect(2*tt.eye([2,2])), gram_defect(mdl.exciton_chain(3,1.0,0.5)))
