import numpy as np, warnings
from h import *
import scikit_tt.tensor_train as tt
rng=np.random.default_rng(22)
st={}
def rec(k): st[k]=st.get(k,0)+1
# C04 (c): threshold bound with D from result ranks; also zero tensors
for trial in range(400):
    d=int(rng.integers(1,5)); rows=[int(rng.integers(1,4)) for _ in range(d)]; cols=[int(rng.integers(1,3)) for _ in range(d)]
    kind=rng.integers(4)
    shape=rows+cols
    if kind==0: X=rng.standard_normal(shape)
    elif kind==1:
        t=rtt(rng,rows,cols,[1]+[int(rng.integers(1,3)) for _ in range(d-1)]+[1]); X=t.full()+10.0**(-rng.integers(2,12))*rng.standard_normal(shape)
    elif kind==2: X=np.zeros(shape)
    else: X=rng.standard_normal(shape)*(10.0**rng.uniform(-8,8))
    if rng.integers(2): X=X+1j*rng.standard_normal(shape)*(0 if kind==2 else 1)
    thr=float(10.0**rng.uniform(-12,-0.3))
    with warnings.catch_warnings():
        warnings.simplefilter("ignore")
        try: t=tt.TT(X,threshold=thr)
        except Exception as e: rec('thr EXC '+type(e).__name__); continue
        try: F=t.full()
        except Exception as e: rec('full EXC '+type(e).__name__+(' zero' if kind==2 else '')); continue
    err=np.linalg.norm(F-X); nX=np.linalg.norm(X)
    D=0
    for i in range(d-1):
        m=t.ranks[i]*rows[i]*cols[i]; n=int(np.prod(rows[i+1:]))*int(np.prod(cols[i+1:])); D+=min(m,n)-t.ranks[i+1]
    ok=err<=thr*nX*np.sqrt(max(D,0))+1e-12*nX
    rec(('zero ' if kind==2 else '')+('bound ok' if ok else 'bound BAD')+(' cut' if D>0 else ''))
    if not ok and st.get('printed',0)<3: rec('printed'); print(kind,rows,cols,thr,err,nX,D,t.ranks)
print(st)
# C05 constructed class with thresholds
st={}
from vt_dense_stub import *
