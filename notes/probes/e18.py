import numpy as np, sys, types, itertools
mpl=types.ModuleType('matplotlib'); plt=types.ModuleType('matplotlib.pyplot'); mpl.pyplot=plt; sys.modules['matplotlib']=mpl; sys.modules['matplotlib.pyplot']=plt
import scikit_tt.quantum_computation as qc
from scikit_tt.tensor_train import TT
from h import rtt
rng=np.random.default_rng(14)
st={}
for trial in range(200):
    n=int(rng.integers(1,6)); r=[1]+[int(rng.integers(1,4)) for _ in range(n-1)]+[1]
    psi=rtt(rng,[2]*n,[1]*n,r,True); psi=psi.ortho_right(); psi=(1/psi.norm())*psi
    p0=psi.full().copy()
    k=int(rng.integers(1,n+1)); ml=sorted(rng.choice(n,size=k,replace=False).tolist())
    ns=int(rng.integers(1,30))
    U=rng.random((ns,k))
    orig=np.random.rand
    calls=[]
    def fake(*shape):
        calls.append(shape); return U.copy()
    np.random.rand=fake
    try:
        try:
            samples,freq=qc.sampling(psi,ml,ns)
        finally:
            np.random.rand=orig
    except Exception as e:
        key='EXC '+type(e).__name__; st[key]=st.get(key,0)+1
        if st[key]<3: print(key,str(e)[:100],n,r,ml)
        continue
    amp=np.abs(psi.full().reshape([2]*n))**2
    # marginal over unmeasured
    marg=amp.sum(axis=tuple(i for i in range(n) if i not in ml))
    out=np.zeros((ns,k)); margin=1
    for s in range(ns):
        cur=marg
        for i in range(k):
            p0_=cur[0].sum()/cur.sum(); margin=min(margin,abs(U[s,i]-p0_)); bit=int(U[s,i]>p0_); out[s,i]=bit; cur=cur[bit]
    es,ec=np.unique(out,return_counts=True,axis=0)
    ok = samples.shape==es.shape and np.array_equal(samples,es) and np.allclose(freq,ec/ns) and abs(freq.sum()-1)<1e-12
    key='ok' if ok else ('BAD' if margin>1e-9 else 'ambiguous'); st[key]=st.get(key,0)+1
    if key=='BAD' and st[key]<3: print(n,r,ml,samples,es,freq)
    if np.abs(psi.full()-p0).max()>0: st['state changed']=st.get('state changed',0)+1
print(st, calls[-1])
