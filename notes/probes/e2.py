import numpy as np, warnings, itertools
import scikit_tt.tensor_train as tt
from scikit_tt.tensor_train import TT
rng=np.random.default_rng(1)
def rtt(rows, cols, ranks, cplx=False):
    cores=[]
    for i in range(len(rows)):
        c=rng.standard_normal((ranks[i],rows[i],cols[i],ranks[i+1]))
        if cplx: c=c+1j*rng.standard_normal(c.shape)
        cores.append(c)
    return TT(cores)
def dense_tensordot(a,b,k,mode):
    A=a.full(); B=b.full(); da=a.order; db=b.order
    # axes of A: rows 0..da-1, cols da..2da-1
    if mode[0:4]=='last': ia=list(range(da-k,da))
    else: ia=list(range(k))
    if mode.endswith('first'): ib=list(range(k))
    else: ib=list(range(db-k,db))
    # contract rows and cols pairwise
    axa=ia+[da+i for i in ia]; axb=ib+[db+i for i in ib]
    return np.tensordot(A,B,axes=(axa,axb)), ia, ib
# tensordot all modes
fails=0
for mode in ['last-first','last-last','first-last','first-first']:
  for da,db,k in itertools.product([1,2,3],[1,2,3],[1,2,3]):
    if k>da or k>db: continue
    ra=[int(rng.integers(1,3)) for _ in range(da)]; ca=[int(rng.integers(1,3)) for _ in range(da)]
    rb=[int(rng.integers(1,3)) for _ in range(db)]; cb=[int(rng.integers(1,3)) for _ in range(db)]
    # make contracted dims match
    ia = list(range(da-k,da)) if mode.startswith('last') else list(range(k))
    ib = list(range(k)) if mode.endswith('first') else list(range(db-k,db))
    for x,y in zip(ia,ib): rb[y]=ra[x]; cb[y]=ca[x]
    a=rtt(ra,ca,[1]+[2]*(da-1)+[1]); b=rtt(rb,cb,[1]+[3]*(db-1)+[1], True)
    try:
        t=a.tensordot(b,k,mode=mode)
    except Exception as e:
        print(mode,da,db,k,"EXC",type(e).__name__,e); fails+=1; continue
    D,ia,ib=dense_tensordot(a,b,k,mode)
    # D axes: remaining A axes (rows then cols in order), remaining B axes
    remA=[i for i in range(da) if i not in ia]; remB=[i for i in range(db) if i not in ib]
    # expected order of modes in result
    if mode=='last-first': order=[('a',i) for i in remA]+[('b',i) for i in remB]
    elif mode=='last-last': order=[('a',i) for i in remA]+[('b',i) for i in remB[::-1]]
    elif mode=='first-last': order=[('b',i) for i in remB]+[('a',i) for i in remA]
    else: order=[('b',i) for i in remB[::-1]]+[('a',i) for i in remA]
    # D axis positions
    pos={}
    n=0
    for i in remA: pos[('a','r',i)]=n; n+=1
    for i in remA: pos[('a','c',i)]=n; n+=1
    for i in remB: pos[('b','r',i)]=n; n+=1
    for i in remB: pos[('b','c',i)]=n; n+=1
    perm=[pos[(w,'r',i)] for w,i in order]+[pos[(w,'c',i)] for w,i in order]
    E=np.transpose(D,perm) if len(perm)>0 else D
    if len(order)==0:
        got=t.full().reshape(())
        err=abs(got-E)
    else:
        err=np.abs(t.full()-E).max() if t.full().shape==E.shape else ('shape',t.full().shape,E.shape)
    if not (isinstance(err,float) or isinstance(err,np.floating)) or err>1e-10:
        print(mode,da,db,k,"ERR",err, t.row_dims,t.col_dims,t.ranks); fails+=1
print("tensordot fails",fails)
