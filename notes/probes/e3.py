import numpy as np, warnings, itertools
import scikit_tt.tensor_train as tt
from scikit_tt.tensor_train import TT
rng=np.random.default_rng(1)
def rtt(rows, cols, ranks, cplx=False):
    cores=[]
    for i in range(len(rows)):
        c=rng.standard_normal((ranks[i],rows[i],cols[i],ranks[i+1]))
        if cplx: c=c+1j*rng.standard_normal(c.shape)
        cores.append(c)
    return TT(cores)
# diag
a=rtt([2,1,3],[1,1,1],[1,2,2,1])
for dl in [[0],[0,2],[1],[0,1,2]]:
    try:
        d=a.diag(dl); print("diag",dl,d.row_dims,d.col_dims, d.cores[0].dtype)
    except Exception as e: print("diag",dl,"EXC",type(e).__name__,e)
# squeeze
a=rtt([1,2,1,3,1],[1,1,1,2,1],[1,2,2,2,2,1])
f0=a.full().copy(); 
s=a.squeeze(); print("squeeze",s.row_dims,s.col_dims, np.abs(s.full().ravel()-f0.ravel()).max())
try:
    print("self after squeeze", np.abs(a.full()-f0).max())
except Exception as e: print("self after squeeze EXC", type(e).__name__, e, [c.shape for c in a.cores], a.ranks)
a=rtt([2,1,3,1],[1,1,2,1],[1,2,2,2,1]); f0=a.full().copy(); s=a.squeeze(); print("squeeze2",s.row_dims,np.abs(s.full().ravel()-f0.ravel()).max(), np.abs(a.full()-f0).max())
# build_core
A=rng.standard_normal((2,3)); B=rng.standard_normal((2,3)); C=(rng.standard_normal((2,3))+1j*rng.standard_normal((2,3)))
c=tt.build_core([[A,B],[0,A]]); print(c.shape, np.abs(c[0,:,:,1]-B).max(), np.abs(c[1,:,:,0]).max())
c=tt.build_core([[A,C],[B,A]]); print("cplx blocks:", c.dtype, np.abs(c[0,:,:,0]-A).max(), np.abs(c[0,:,:,1]-C).max(), np.abs(c[1,:,:,0]-B).max(), np.abs(c[1,:,:,1]-A).max())
c=tt.build_core([[A,B],[B,A]], iscomplex=True); print("iscomplex:", c.dtype, np.abs(c[0,:,:,0]-A).max())
try:
    c=tt.build_core([[A,0],[B,0]]); print("last zero ok", c.shape)
except Exception as e: print("last zero EXC", type(e).__name__, e)
with warnings.catch_warnings(record=True) as w:
    warnings.simplefilter("always")
    c=tt.build_core([A,C,0]); print("vec cplx:", c.dtype, c.shape, np.abs(c[1,:,:,0]-C).max(), [str(x.message) for x in w])
c=tt.build_core([A,B], iscomplex=True); print("vec iscomplex:", c.dtype, np.abs(c[0,:,:,0]-A).max())
try:
    c=tt.build_core([0,A]); print("vec leading zero:", c.shape, np.abs(c[1,:,:,0]-A).max())
except Exception as e: print("vec leading zero EXC", type(e).__name__, e)
try:
    c=tt.build_core([A,0]); print("vec trailing zero:", c.shape, np.abs(c[0,:,:,0]-A).max())
except Exception as e: print("vec trailing zero EXC", type(e).__name__, e)
v=rng.standard_normal(3)
c=tt.build_core([[v,0],[v,v]]); print("1d", c.shape)
# tt2qtt / qtt2tt
a=rtt([4,6],[2,3],[1,3,1],True)
q=a.tt2qtt([[2,2],[2,3]],[[2,1],[1,3]]); print(q.row_dims,q.col_dims,q.ranks)
b=q.qtt2tt([2,2]); print("roundtrip", np.abs(b.full()-a.full()).max())
# dense of qtt: reshape
F=a.full().reshape(2,2,2,3,2,1,1,3)  # rows split then cols split
print("qtt dense", np.abs(q.full()-F).max())
a=rtt([4],[4],[1,1]); q=a.tt2qtt([[2,2]],[[2,2]]); print(q.ranks, np.abs(q.qtt2tt([2]).full()-a.full()).max())
# rank_tensordot, concatenate
a=rtt([2,3],[1,2],[2,2,3]); M=rng.standard_normal((3,4)); r=a.rank_tensordot(M); print(r.ranks)
N=rng.standard_normal((5,2)); r=a.rank_tensordot(N,mode='first'); print(r.ranks)
b=rtt([2],[2],[3,1]); c=a.concatenate(b); print(c.order,c.ranks)
c=a.concatenate([b.cores[0]]); print(c.order,c.ranks)
# rank_transpose
a=rtt([2,3,2],[1,2,1],[1,2,3,1],True); r=a.rank_transpose(); print(r.row_dims, np.abs(r.full()-a.full().transpose(2,1,0,5,4,3)).max())
