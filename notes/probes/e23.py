import numpy as np, scipy.linalg as sl, traceback
from h import *
import scikit_tt.solvers.ode as ode
rng=np.random.default_rng(8)
dims=[3,2,2]; N=12; d=3
H,lam,Q=rand_herm(rng,N,False,-1,1); Htt=op_from_mat(H,dims)
x0=rtt(rng,dims,[1]*d,[1,1,1,1],True); x0=(1/x0.norm())*x0; x0=x0.ortho_right()
try:
    ode.tdvp(Htt,x0,0.3,2)
except Exception: traceback.print_exc()
