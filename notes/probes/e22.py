import numpy as np, warnings, io, contextlib
from h import *
import scikit_tt.tensor_train as tt, scikit_tt.solvers.sle as sle, scikit_tt.solvers.evp as evp, scikit_tt.solvers.ode as ode
rng=np.random.default_rng(18)
def snap(t): return ([c.copy() for c in t.cores], list(t.row_dims), list(t.col_dims), list(t.ranks), t.order)
def same(t,s): return t.order==s[4] and t.row_dims==s[1] and t.col_dims==s[2] and t.ranks==s[3] and all(np.array_equal(a,b) for a,b in zip(t.cores,s[0]))
def shares(a,b): return any(np.shares_memory(x,y) for x in a.cores for y in b.cores)
dims=[2,2,2]; d=3
v=rtt(rng,dims,[1]*d,[1,1,1,1]); w=rtt(rng,dims,[1]*d,[1,1,1,1]); A=rtt(rng,dims,dims,[1,1,1,1])
A=A+ (5*tt.eye(dims))
ops={
 'add':lambda: v+w,'sub':lambda: v-w,'mul':lambda: 2.0*v,'matmul':lambda: A@v,'tensordot lf':lambda: v.tensordot(w,1),'tensordot ll':lambda: v.tensordot(w,1,mode='last-last'),
 'tensordot fl':lambda: v.tensordot(w,1,mode='first-last'),'tensordot ff':lambda: v.tensordot(w,1,mode='first-first'),'tensordot full-self':lambda: v.tensordot(rtt(rng,[2,2,2,2],[1]*4,[1]*5),3),
 'concat':lambda: v.concatenate(w),'concat list':lambda: v.concatenate(w.cores),'transpose':lambda: A.transpose(),'rank_transpose':lambda: v.rank_transpose(),'conj':lambda: v.conj(),'copy':lambda: v.copy(),
 'diag':lambda: v.diag([0]),'squeeze':lambda: rtt(rng,[1,2,1,2],[1]*4,[1]*5).squeeze(),'tt2qtt':lambda: rtt(rng,[4,2],[1,1],[1,1,1]).tt2qtt([[2,2],[2]],[[1,1],[1]]),'qtt2tt':lambda: v.qtt2tt([2,1]),
 'svd':lambda: v.svd(2)[0],'svd v':lambda: v.svd(2)[2],'pinv':lambda: v.pinv(2),'rank_tensordot':lambda: v.rank_tensordot(np.ones((1,1))),
 'als':lambda: sle.als(A,v,w),'mals':lambda: sle.mals(A,v,w),'evp':lambda: evp.als(A,v)[1],'power':lambda: evp.power_method(A,v,repeats=2,sigma=0.1)[1],
 'expl':lambda: ode.explicit_euler(A,v,[0.01],progress=False),'impl':lambda: ode.implicit_euler(A,v,w,[0.01],progress=False),'trap':lambda: ode.trapezoidal_rule(A,v,w,[0.01],progress=False),
 'hod':lambda: ode.hod(A,v,0.01,2,progress=False),'tdvp1':lambda: ode.tdvp1site(A,v,0.01,1),'tdvp2':lambda: ode.tdvp2site(A,v,0.01,1),'krylov':lambda: ode.krylov(A,v,3,0.01),
}
for name,f in ops.items():
    sv,sw,sA=snap(v),snap(w),snap(A)
    try:
        with warnings.catch_warnings():
            warnings.simplefilter("ignore"); res=f()
    except Exception as e:
        print(name,"EXC",type(e).__name__,str(e)[:60]); continue
    rl=res if isinstance(res,list) else [res]
    rl=[r for r in rl if hasattr(r,'cores')]
    mut=[n for n,t,s in [('v',v,sv),('w',w,sw),('A',A,sA)] if not same(t,s)]
    sh=[n for n,t in [('v',v),('w',w),('A',A)] if any((r is not t) and shares(r,t) for r in rl)]
    ident=[n for n,t in [('v',v),('w',w),('A',A)] if any(r is t for r in rl)]
    # now in-place ops on results
    for r in rl:
        if any(r is t for t in (v,w,A)): continue
        try:
            with warnings.catch_warnings():
                warnings.simplefilter("ignore"); r.ortho_left(); r.ortho_right()
        except Exception as e: pass
    mut2=[n for n,t,s in [('v',v,sv),('w',w,sw),('A',A,sA)] if not same(t,s)]
    print("%-20s mutated-by-call=%s shares=%s identity=%s mutated-after-inplace=%s"%(name,mut,sh,ident,mut2))
    # restore
    for t,s in [(v,sv),(w,sw),(A,sA)]:
        t.cores=[c.copy() for c in s[0]]; t.row_dims=list(s[1]); t.col_dims=list(s[2]); t.ranks=list(s[3]); t.order=s[4]
