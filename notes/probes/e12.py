import numpy as np, itertools, traceback
import scikit_tt.slim as slim, scikit_tt.models as mdl
from scikit_tt.data_driven import ulam
rng=np.random.default_rng(9)
def dense_gen(state_space, scr, tcr, cyclic):
    d=len(state_space); N=int(np.prod(state_space)); G=np.zeros((N,N))
    states=list(itertools.product(*[range(n) for n in state_space]))
    idx={s:i for i,s in enumerate(states)}
    for s in states:
        for i in range(d):
            for (r,p,k) in scr[i]:
                if s[i]==r:
                    t=list(s); t[i]=p; G[idx[tuple(t)],idx[s]]+=k; G[idx[s],idx[s]]-=k
        nb=d if cyclic else d-1
        for i in range(nb):
            j=(i+1)%d
            for (r1,p1,r2,p2,k) in tcr[i]:
                if s[i]==r1 and s[j]==r2:
                    t=list(s); t[i]=p1; t[j]=p2; G[idx[tuple(t)],idx[s]]+=k; G[idx[s],idx[s]]-=k
    return G
def rand_reactions(state_space, cyclic, nmax=3):
    d=len(state_space)
    scr=[[[int(rng.integers(n)),int(rng.integers(n)),float(rng.uniform(0.1,2))] for _ in range(rng.integers(0,nmax))] for n in state_space]
    nb=d if cyclic else d-1
    tcr=[]
    for i in range(nb):
        j=(i+1)%d
        tcr.append([[int(rng.integers(state_space[i])),int(rng.integers(state_space[i])),int(rng.integers(state_space[j])),int(rng.integers(state_space[j])),float(rng.uniform(0.1,2))] for _ in range(rng.integers(0,nmax+1))])
    return scr,tcr
res={}
for trial in range(300):
    d=int(rng.integers(2,5)); ss=[int(rng.integers(1,4)) for _ in range(d)]; cyc=bool(rng.integers(2)); thr=[0,1e-14,1e-10][rng.integers(3)]
    scr,tcr=rand_reactions(ss,cyc)
    G=dense_gen(ss,scr,tcr,cyc)
    key=(cyc, thr>0)
    try:
        op=slim.slim_mme(ss,scr,tcr,threshold=thr)
        err=np.abs(op.matricize().reshape(G.shape)-G).max()
        ok = err<1e-10
        res.setdefault(key,[0,0,0]); res[key][0 if ok else 1]+=1
        if not ok and res[key][1]<=2: print("MISMATCH",ss,cyc,thr,err,op.ranks)
    except Exception as e:
        res.setdefault(key,[0,0,0]); res[key][2]+=1
        if res[key][2]<=2: print("EXC",ss,cyc,thr,type(e).__name__,str(e)[:100], [len(t) for t in tcr])
print(res)
# ulam
T=rng.integers(1,4,size=(4,50)); T[0]=rng.integers(1,3,50); T[2]=rng.integers(1,3,50)
op=ulam.ulam_2d(T,[2,3],10); D=np.zeros((2,3,2,3))
for k in range(T.shape[1]): D[T[2,k]-1,T[3,k]-1,T[0,k]-1,T[1,k]-1]+=1
print("ulam2d", np.abs(op.full()-D/10).max())
T=rng.integers(1,3,size=(6,80)); op=ulam.ulam_3d(T,[2,2,2],7); D=np.zeros((2,)*6)
for k in range(T.shape[1]): D[T[3,k]-1,T[4,k]-1,T[5,k]-1,T[0,k]-1,T[1,k]-1,T[2,k]-1]+=1
print("ulam3d", np.abs(op.full()-D/7).max())
