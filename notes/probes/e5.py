import numpy as np, warnings, itertools
import scikit_tt.tensor_train as tt
from scikit_tt.tensor_train import TT
rng=np.random.default_rng(3)
def rtt(rows, cols, ranks, cplx=False):
    cores=[]
    for i in range(len(rows)):
        c=rng.standard_normal((ranks[i],rows[i],cols[i],ranks[i+1]))
        if cplx: c=c+1j*rng.standard_normal(c.shape)
        cores.append(c)
    return TT(cores)
# aliasing: tensordot result shares cores with operands; then in-place ortho on result
a=rtt([2,2,3],[1,1,1],[1,1,1,1]); b=rtt([3,2],[1,1],[1,1,1])
fa=a.full().copy(); fb=b.full().copy()
t=a.tensordot(b,1)  # last-first
print("shares:", any(np.shares_memory(t.cores[i],a.cores[j]) for i in range(t.order) for j in range(a.order)), any(np.shares_memory(t.cores[i],b.cores[j]) for i in range(t.order) for j in range(b.order)))
t.ortho_left(); 
print("after ortho on result: a err", np.abs(a.full()-fa).max(), "b err", np.abs(b.full()-fb).max())
t.ortho_right()
print("after ortho_right on result: a err", np.abs(a.full()-fa).max(), "b err", np.abs(b.full()-fb).max())
# TT(list) shares cores with the caller's list
cores=[rng.standard_normal((1,2,1,1)), rng.standard_normal((1,3,1,1))]
x=TT(cores); y=TT(cores); fy=y.full().copy(); x.ortho_left(); print("TT(list) twice: y err", np.abs(y.full()-fy).max())
# concatenate
a=rtt([2,2],[1,1],[1,1,1]); b=rtt([2,2],[1,1],[1,1,1]); fb=b.full().copy(); c=a.concatenate(b); c.ortho_right(); print("concat: b err", np.abs(b.full()-fb).max())
# diag shares
a=rtt([2,2,2],[1,1,1],[1,1,1,1]); fa=a.full().copy(); d=a.diag([0]); d.ortho_right(); print("diag: a err", np.abs(a.full()-fa).max())
# svd overwrite=False
a=rtt([2,2,2],[1,1,1],[1,2,2,1]); fa=a.full().copy(); u,s,v=a.svd(2); u.ortho_left(); v.ortho_right(); print("svd: a err", np.abs(a.full()-fa).max())
# ortho_left in place corrupting... overwrite_a on reshaped view: self only
# norm: copy
a=rtt([2,2,2],[1,1,1],[1,1,1,1]); fa=a.full().copy(); a.norm(); print("norm: a err", np.abs(a.full()-fa).max())
# matmul result views?
A=rtt([2,2],[2,2],[1,1,1]); x=rtt([2,2],[1,1],[1,1,1]); fA=A.full().copy(); fx=x.full().copy(); y=A@x; y.ortho(); print("matmul:", np.abs(A.full()-fA).max(), np.abs(x.full()-fx).max())
# add
s=x+x; s.ortho(); print("add:", np.abs(x.full()-fx).max())
# transpose view? copy() first so OK
tr=A.transpose(); tr.ortho(); print("transpose:", np.abs(A.full()-fA).max())
# rank_transpose
rt=x.rank_transpose(); rt.ortho(); print("rank_transpose:", np.abs(x.full()-fx).max())
# tt2qtt 
