import numpy as np, warnings
from h import *
import scikit_tt.tensor_train as tt, scikit_tt.solvers.evp as evp, scikit_tt.models as mdl
rng=np.random.default_rng(23)
def contract(cores):
    x=cores[0]
    for c in cores[1:]: x=np.tensordot(x,c,axes=(x.ndim-1,0))
    return x
def qr_left(cores):
    cores=[c.copy() for c in cores]
    for i in range(len(cores)-1):
        r,m,n,r2=cores[i].shape; q,R=np.linalg.qr(cores[i].reshape(r*m*n,r2)); cores[i]=q.reshape(r,m,n,q.shape[1]); cores[i+1]=np.tensordot(R,cores[i+1],axes=(1,0))
    return cores
st={}
def rec(k): st[k]=st.get(k,0)+1
# C05 constructed: U (left part orthonormal, k columns), V (right part orthonormal rows), spectrum with gap
for trial in range(200):
    d=int(rng.integers(2,6)); dims=[int(rng.integers(2,4)) for _ in range(d)]; idx=int(rng.integers(1,d)); cplx=bool(rng.integers(2))
    L=int(np.prod(dims[:idx])); R=int(np.prod(dims[idx:])); k=int(rng.integers(1,min(L,R,4)+1))
    # random TT for left with open right rank k, orthonormalise; same for right (via rank transpose trick)
    lr=[1]+[int(rng.integers(1,4)) for _ in range(idx-1)]+[k]
    lc=[rng.standard_normal((lr[i],dims[i],1,lr[i+1]))+(1j*rng.standard_normal((lr[i],dims[i],1,lr[i+1])) if cplx else 0) for i in range(idx)]
    rr=[k]+[int(rng.integers(1,4)) for _ in range(d-idx-1)]+[1]
    rc=[rng.standard_normal((rr[i],dims[idx+i],1,rr[i+1]))+(1j*rng.standard_normal((rr[i],dims[idx+i],1,rr[i+1])) if cplx else 0) for i in range(d-idx)]
    Um=contract(lc).reshape(L,k); Vm=contract(rc).reshape(k,R)
    if np.linalg.matrix_rank(Um)<k or np.linalg.matrix_rank(Vm)<k: rec('skip rank'); continue
    qu,ru=np.linalg.qr(Um); qv,rv=np.linalg.qr(Vm.conj().T)   # Um=qu ru ; Vm = rv^H qv^H
    s=np.sort(10.0**rng.uniform(-6,0,k))[::-1]; s[0]=1.0
    M=qu@np.diag(s)@qv.conj().T
    # TT with this unfolding: left cores * (ru^-1 diag(s) rv^-H) * right cores
    mid=np.linalg.inv(ru)@np.diag(s)@np.linalg.inv(rv.conj().T)
    cores=[c.copy() for c in lc]+[c.copy() for c in rc]; cores[idx]=np.tensordot(mid,cores[idx],axes=(1,0))
    t=tt.TT(cores)
    assert np.abs(contract(t.cores).reshape(L,R)-M).max()<1e-8
    # threshold in a gap
    ratios=s/s[0]; cand=[np.sqrt(ratios[j]*ratios[j+1]) for j in range(k-1) if ratios[j]/ratios[j+1]>100]
    thr=cand[int(rng.integers(len(cand)))] if cand and rng.integers(2) else 0.0
    with warnings.catch_warnings():
        warnings.simplefilter("ignore")
        u,sv,v=t.svd(idx,threshold=thr); p=t.pinv(idx,threshold=thr)
    keep=int(np.sum(ratios>thr)) if thr>0 else k
    # other bonds may have ranks > k: svd keeps exact zeros? compare top
    sd=np.linalg.svd(M,compute_uv=False)
    ok1=len(sv)>=keep and np.abs(sv[:keep]-sd[:keep]).max()<1e-8 and (len(sv)==keep or np.abs(sv[keep:]).max()<1e-9)
    P=contract(p.cores).reshape(L,R); Pd=np.linalg.pinv(M,rcond=(thr if thr>0 else 1e-10)).conj().T
    ok2=np.abs(P-Pd).max()<1e-6*np.abs(Pd).max() if len(sv)==keep else None
    rec('svd %s pinv %s thr%s'%(ok1,ok2,'>0' if thr>0 else '=0'))
    if (not ok1 or ok2 is False) and st.get('p',0)<3: rec('p'); print(dims,idx,k,thr,sv,sd[:k+1],t.ranks,len(sv),keep, np.abs(P-Pd).max(), np.abs(Pd).max())
print(st)
