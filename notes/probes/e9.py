import numpy as np, warnings
from h import *
import scikit_tt.solvers.evp as evp
rng=np.random.default_rng(7)
def rq(A,x,B=None):
    n=x.conj()@A@x; d=(x.conj()@x) if B is None else (x.conj()@B@x); return n/d
for cplx in [False,True]:
  for dims in [[2,3,2],[2,2,2,2]]:
    N=int(np.prod(dims)); d=len(dims)
    A,lam,Q=rand_herm(rng,N,cplx,-2,3); B,_,_=rand_herm(rng,N,cplx,1,2)
    Att=op_from_mat(A,dims); Btt=op_from_mat(B,dims)
    import scipy.linalg as sl
    glam=sl.eigh(A,B,eigvals_only=True)
    for ranks in [maxranks(dims),[1]+[2]*(d-1)+[1]]:
      g=rtt(rng,dims,[1]*d,ranks,cplx)
      # deflation
      p=rtt(rng,dims,[1]*d,[1]+[2]*(d-1)+[1],cplx); pv=p.matricize(); shift=-3.0
      A3=A+shift*np.outer(pv,pv.conj()); A3tt=op_from_mat(A3,dims)
      for solver in ['eig','eigh']:
        sig=lam[-1]+1
        e1,x1,_=evp.als(Att,g,previous=[p],shift=shift,repeats=2,solver=solver,sigma=sig,conv_eps=0)
        e2,x2,_=evp.als(A3tt,g,repeats=2,solver=solver,sigma=sig,conv_eps=0)
        print(cplx,dims,ranks,solver,"deflation: dev=%.1e"%abs(e1-e2),"1-ov=%.1e"%(1-abs(np.vdot(x1.matricize(),x2.matricize()))), "rq3=%.1e"%abs(rq(A3,x1.matricize())-e1))
        # gevp
        e,x,_=evp.als(Att,g,operator_gevp=Btt,repeats=2,solver=solver,sigma=glam[-1]+1,conv_eps=0)
        print("   gevp: ev=%.5f glam_max=%.5f rq=%.1e"%(np.real(e),glam[-1],abs(rq(A,x.matricize(),B)-e)))
        # number_ev=2
        es,xs,_=evp.als(Att,g,number_ev=2,repeats=2,solver=solver,sigma=sig,conv_eps=0)
        print("   nev2:",np.real(es),[ "%.1e"%abs(rq(A,xx.matricize())-ee) for ee,xx in zip(es,xs)], lam[-2:], [np.shares_memory(xs[0].cores[1],xs[1].cores[1])])
      try:
        e,x,_=evp.als(Att,g,repeats=2,solver='eigs',sigma=lam[-1]+0.3,conv_eps=0,number_ev=1)
        print("   eigs: ev",np.real(e),"rq=%.1e"%abs(rq(A,x.matricize())-e))
      except Exception as ex: print("   eigs EXC",type(ex).__name__,ex)
    # power method
    g=rtt(rng,dims,[1]*d,maxranks(dims),cplx)
    sigma=lam[3]+0.05
    e,x=evp.power_method(Att,g,repeats=15,sigma=sigma)
    xv=x.matricize(); print("  power: ev",e,"nearest",lam[np.argmin(abs(lam-sigma))],"rq=%.1e"%abs(rq(A,xv)-e), "resid=%.1e"%np.linalg.norm(A@xv-rq(A,xv)*xv))
    e,x=evp.power_method(Att,g,operator_gevp=Btt,repeats=15,sigma=glam[2]+0.02)
    xv=x.matricize(); print("  power gevp: ev",e,"nearest",glam[2],"rq=%.1e"%abs(rq(A,xv,B)-e))
