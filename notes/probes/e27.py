import numpy as np, warnings, traceback
import scikit_tt.tensor_train as tt
from h import rtt
rng=np.random.default_rng(22)
n=0
for trial in range(400):
    d=int(rng.integers(1,5)); rows=[int(rng.integers(1,4)) for _ in range(d)]; cols=[int(rng.integers(1,3)) for _ in range(d)]
    X=rng.standard_normal(rows+cols); 
    if trial%3==0: X=np.zeros(rows+cols)
    thr=float(10.0**rng.uniform(-12,-0.3))
    with warnings.catch_warnings():
        warnings.simplefilter("ignore")
        try: t=tt.TT(X,threshold=thr)
        except Exception as e:
            n+=1
            if n<=2: print(rows,cols,thr,"zero" if trial%3==0 else "rand"); traceback.print_exc()
print(n)
