import numpy as np, itertools
import scikit_tt.models as mdl, scikit_tt.tensor_train as tt
def gen_check(name, op):
    M=op.matricize(); cs=np.abs(M.sum(axis=0)).max(); off=M-np.diag(np.diag(M)); print(name, M.shape, "colsum %.1e"%cs, "min offdiag %.1e"%off.min(), "scale %.1e"%np.abs(M).max())
for order in [2,3,4]:
    for cyc in [True,False]:
        gen_check("co_ox %d %s"%(order,cyc), mdl.co_oxidation(order,1e4,cyclic=cyc))
gen_check("sig 2", mdl.signaling_cascade(2))
for lanes,cars in [(2,1),(2,3),(3,2),(4,1),(5,2)]:
    try: gen_check("toll %d %d"%(lanes,cars), mdl.toll_station(lanes,cars))
    except Exception as e: print("toll",lanes,cars,"EXC",type(e).__name__,e)
for m in [1,2]:
    gen_check("two_step m=%d"%m, mdl.two_step_destruction(1.0,2.0,0.5,m))
# qft
for n in [1,2,3,4,5]:
  for f,sgn in [(mdl.qft,1),(mdl.iqft,-1)]:
    G=f(n); P=np.eye(2**n)
    un=[]
    for g in G:
        Mg=g.matricize().reshape(2**n,2**n); un.append(np.abs(Mg.conj().T@Mg-np.eye(2**n)).max()); P=Mg@P
    N=2**n; F=np.exp(sgn*2j*np.pi*np.outer(np.arange(N),np.arange(N))/N)/np.sqrt(N)
    rev=[int(format(y,'0%db'%n)[::-1],2) for y in range(N)]
    print(f.__name__,n,"unitary %.1e"%max(un),"bitrev DFT err %.1e"%np.abs(P[rev,:]-F).max())
q=mdl.qfa().matricize(); print("qfa unitary", np.abs(q.T@q-np.eye(16)).max(), "qfan(1)==qfa", np.abs(mdl.qfan(1).matricize()-q).max())
for k in [2,3]:
    q=mdl.qfan(k).matricize(); print("qfan",k,np.abs(q.T@q-np.eye(q.shape[0])).max())
for a in [2,4,7,8,11,13,14]:
    g=mdl.shor(a)
    # TT-form unitarity: ||G^H G - I||_F^2 = tr((G^H G)^2) - 2 tr(G^H G) + N
    def trGG(g):
        E=np.ones((1,1))
        for c in g.cores:
            E=np.einsum('ab,amnc,bmnd->cd',E,c.conj(),c)
        return E[0,0].real
    print("shor",a,g.ranks,"tr(G^H G)=",trGG(g), 2**12)
# exciton
for n in [2,3,4]:
    H=mdl.exciton_chain(n,0.3,-0.2).matricize(); print("exciton",n,"herm %.1e"%np.abs(H-H.T).max())
# ising
for d in [2,3,4]:
    T=mdl.ising(d,1.3,0.4).full().reshape([2]*d)
    E=np.zeros([2]*d)
    for idx in itertools.product(range(2),repeat=d):
        x=[1-2*i for i in idx]; E[idx]=-1.3*sum(x[i]*x[i+1] for i in range(d-1))-0.4*sum(x)
    print("ising",d,np.abs(T-E).max())
