import numpy as np, itertools, warnings, sys, types, io, contextlib
import scikit_tt.data_driven.transform as tdt, scikit_tt.data_driven.tgedmd as tg
from scikit_tt.tensor_train import TT
from h import rtt
rng=np.random.default_rng(13)
def rand_fun(idx,d):
    k=rng.integers(5)
    if k==0: return tdt.ConstantFunction(idx,d)
    if k==1: return tdt.Identity(idx,d)
    if k==2: return tdt.Monomial(idx,int(rng.integers(0,4)),dimension=d)
    if k==3: return tdt.Sin(idx,float(rng.uniform(0.5,2)),d)
    return tdt.GaussFunction(idx,float(rng.uniform(-1,1)),float(rng.uniform(0.3,1)),d)
def prod_oracle(fs,x,b,sig):
    vals=[f(x) for f in fs]; gr=[f.gradient(x) for f in fs]; he=[f.hessian(x) for f in fs]; p=len(fs); d=len(x)
    G=np.zeros(d); H=np.zeros((d,d))
    for j in range(p):
        c=np.prod([vals[l] for l in range(p) if l!=j]); G+=c*gr[j]; H+=c*he[j]
        for v in range(p):
            if v==j: continue
            c2=np.prod([vals[l] for l in range(p) if l not in (j,v)]); H+=c2*np.outer(gr[j],gr[v])
    a=sig@sig.T
    return b@G+0.5*np.sum(a*H), G
worst=0
for trial in range(200):
    d=int(rng.integers(1,4)); d2=int(rng.integers(1,4)); p=int(rng.integers(2,5))
    basis=[[rand_fun(int(rng.integers(d)),d) for _ in range(rng.integers(1,4))] for _ in range(p)]
    s=tuple(int(rng.integers(len(b))) for b in basis); x=rng.uniform(-1,1,d); b=rng.standard_normal(d); sig=rng.standard_normal((d,d2))
    v=tg.generator_on_product(basis,s,x,b,sig); o,G=prod_oracle([basis[k][s[k]] for k in range(p)],x,b,sig)
    worst=max(worst,abs(v-o)/max(1,abs(o)))
    i=int(rng.integers(d2)); v2=tg.generator_on_product_reversible(basis,s,i,x,sig); worst=max(worst,abs(v2-G@sig[:,i])/max(1,abs(v2)))
print("product rule worst rel err",worst)
# amuset
st={}
for trial in range(30):
    d=int(rng.integers(1,3)); d2=int(rng.integers(1,3)); p=int(rng.integers(2,4)); m=int(rng.integers(4,10))
    basis=[[tdt.ConstantFunction(0,d)]+[rand_fun(int(rng.integers(d)),d) for _ in range(rng.integers(1,3))] for _ in range(p)]
    n=[len(bb) for bb in basis]
    x=rng.uniform(-1,1,(d,m)); b=rng.standard_normal((d,m)); sig=rng.standard_normal((d,d2,m))
    rew=rng.uniform(0.5,2,m) if rng.integers(2) else None
    w=np.ones(m) if rew is None else rew
    Psi=np.zeros((int(np.prod(n)),m)); LPsi=np.zeros_like(Psi); dPsi=np.zeros((int(np.prod(n)),d,m))
    for j in range(m):
        for q,idx in enumerate(itertools.product(*[range(k) for k in n])):
            fs=[basis[k][idx[k]] for k in range(p)]
            Psi[q,j]=np.prod([f(x[:,j]) for f in fs]); LPsi[q,j],dPsi[q,:,j]=prod_oracle(fs,x[:,j],b[:,j],sig[:,:,j])
    for rev in [False,True]:
        thr=1e-8
        with contextlib.redirect_stdout(io.StringIO()):
            ev,vecs,ranks=tg.amuset_hosvd(x,basis,sig,b=None if rev else b,reweight=rew,threshold=thr,return_option='eigenvectors')
        Pw=Psi*np.sqrt(w)[None,:]
        u,s,vh=np.linalg.svd(Pw,full_matrices=False); k=int(np.sum(s>thr)); u=u[:,:k]; s=s[:k]; vh=vh[:k]
        if not rev:
            M=vh@np.diag(np.sqrt(w))@LPsi.T@u@np.diag(1/s)
        else:
            M=np.zeros((k,k))
            for l in range(m):
                a=sig[:,:,l]@sig[:,:,l].T; V=dPsi[:,:,l].T@u@np.diag(1/s); M+=-0.5*w[l]*V.T@a@V
        lo=np.linalg.eigvals(M)
        gap=not ((s>thr/10)&(s<thr*10)).any()
        ok=len(ev)==len(lo) and max(min(abs(e-lo)) for e in ev)<1e-6*max(1,abs(lo).max()) and max(min(abs(e-ev)) for e in lo)<1e-6*max(1,abs(lo).max())
        key=('rev ' if rev else 'nonrev ')+('ok' if ok else 'BAD')+('' if gap else ' nogap'); st[key]=st.get(key,0)+1
        if not ok and st[key]<3: print(key,ev,lo,s)
print(st)
