import numpy as np, warnings
import scikit_tt.tensor_train as tt
from scikit_tt.tensor_train import TT
rng=np.random.default_rng(0)
def rtt(rows, cols, ranks, cplx=False):
    cores=[]
    for i in range(len(rows)):
        c=rng.standard_normal((ranks[i],rows[i],cols[i],ranks[i+1]))
        if cplx: c=c+1j*rng.standard_normal(c.shape)
        cores.append(c)
    return TT(cores)
# order-1 sum
a=rtt([3],[2],[1,1]); b=rtt([3],[2],[1,1])
print("order1 sum err", np.abs((a+b).full()-(a.full()+b.full())).max())
print("order1 sub err", np.abs((a-b).full()-(a.full()-b.full())).max())
# order 2 w/ rank-1
a=rtt([3,1],[2,1],[1,1,1]); b=rtt([3,1],[2,1],[1,2,1])
print("order2 sum err", np.abs((a+b).full()-(a.full()+b.full())).max())
# complex mixed
a=rtt([2,3],[2,1],[1,2,1],True); b=rtt([2,3],[2,1],[1,3,1])
print("mixed sum err", np.abs((a+b).full()-(a.full()+b.full())).max())
# matmul d=1
A=rtt([3],[2],[1,1]); x=rtt([2],[1],[1,1])
print("matmul d1", np.abs((A@x).matricize()-A.matricize()@x.matricize()).max())
# norm on d=1
print("norm d1", a.norm(), np.linalg.norm(a.full()))
x=rtt([3],[1],[1,1]); print(x.norm(), np.linalg.norm(x.full()))
# element
print(a.element([1,2,0,0]), a.full()[1,2,0,0])
# scalar mult types
for s in [2, 2.5, 1+2j, np.float64(2.0), np.complex128(1j)]:
    print(type(s), np.abs((s*a).full()-s*a.full()).max(), np.abs((a*s).full()-s*a.full()).max())
try:
    print((np.int64(2)*a))
except Exception as e: print("np.int64 rmul:", type(e), e)
# transpose conj
print("ctrans", np.abs(a.transpose(conjugate=True).matricize()-a.matricize().conj().T).max())
# 1-norm
p=TT([np.abs(c) for c in b.cores])
print("1norm op", p.norm(p=1), np.linalg.norm(p.matricize(),1))
v=TT([np.abs(rng.standard_normal((1,3,1,2))),np.abs(rng.standard_normal((2,2,1,1)))])
print("1norm vec", v.norm(p=1), np.abs(v.matricize()).sum())
# uniform
u=tt.uniform([2,3,2],ranks=[1,2,3,1],norm=2.5); print("uniform", u.norm(), np.ptp(u.full()))
u=tt.uniform([4],norm=3.0); print("uniform d1", u.norm())
# residual error
A=rtt([2,3],[2,3],[1,2,1]); x=rtt([2,3],[1,1],[1,2,1]); bb=rtt([2,3],[1,1],[1,3,1])
print("resid", tt.residual_error(A,x,bb), np.linalg.norm(A.matricize()@x.matricize()-bb.matricize()))
A=rtt([3],[3],[1,1]); x=rtt([3],[1],[1,1]); bb=rtt([3],[1],[1,1])
try: print("resid d1", tt.residual_error(A,x,bb), np.linalg.norm(A.matricize()@x.matricize()-bb.matricize()))
except Exception as e: print("resid d1 EXC", type(e), e)
A=rtt([2,2,2],[2,2,2],[1,2,2,1],True); x=rtt([2,2,2],[1,1,1],[1,2,2,1],True); bb=rtt([2,2,2],[1,1,1],[1,1,1,1],True)
print("resid cplx d3", tt.residual_error(A,x,bb), np.linalg.norm(A.matricize()@x.matricize()-bb.matricize()))
# eye, unit, zeros, ones
print(np.abs(tt.eye([2,1,3]).matricize()-np.eye(6)).max())
print(tt.unit([2,3],[1,2]).full().ravel())
print(tt.ones([2,1],[1,2],ranks=3).full().ravel(), tt.zeros([2],[2]).full().ravel())
print(tt.rand([2,3],[1,2],ranks=[1,2,1]))
c=tt.canonical([2,3,2],4); print(c, np.linalg.norm(c.full()))
