import numpy as np, itertools, warnings, sys, types
import scikit_tt.data_driven.transform as tdt, scikit_tt.data_driven.tdmd as tdmd, scikit_tt.data_driven.tedmd as tedmd
from scikit_tt.tensor_train import TT
from h import rtt, ttsvd
rng=np.random.default_rng(12)
# tdmd
st={}
for trial in range(60):
    dims=[int(rng.integers(2,4)) for _ in range(rng.integers(1,4))]; m=int(rng.integers(2,7)); N=int(np.prod(dims))
    r=int(rng.integers(1,min(N,m)+1))
    X=rng.standard_normal((N,r))@rng.standard_normal((r,m)); A=rng.standard_normal((N,N)); Y=A@X
    xt=TT(ttsvd(X.reshape(dims+[m]),dims+[m],[1]*(len(dims)+1))); yt=TT(ttsvd(Y.reshape(dims+[m]),dims+[m],[1]*(len(dims)+1)))
    x0=xt.full().copy(); y0=yt.full().copy()
    thr=1e-9
    for name,f in [('exact',tdmd.tdmd_exact),('standard',tdmd.tdmd_standard)]:
        lam,modes=f(xt,yt,threshold=thr)
        u,s,vh=np.linalg.svd(X,full_matrices=False); k=int(np.sum(s/s[0]>thr)); u=u[:,:k]; s=s[:k]; vh=vh[:k]
        At=u.conj().T@Y@vh.conj().T@np.diag(1/s); lo=np.linalg.eigvals(At)
        # multiset compare
        d=max(min(abs(l-lo)) for l in lam) if len(lam)==len(lo) else np.inf
        Phi=modes.full().reshape(N,-1)
        Aop=Y@np.linalg.pinv(X,rcond=thr)
        if name=='exact': res=max(np.linalg.norm(Aop@Phi[:,i]-lam[i]*Phi[:,i])/np.linalg.norm(Phi[:,i]) for i in range(len(lam)))
        else:
            Pu=u@u.conj().T; res=max(np.linalg.norm(Pu@Aop@Phi[:,i]-lam[i]*Phi[:,i])/np.linalg.norm(Phi[:,i]) for i in range(len(lam)))
        ok=d<1e-7 and res<1e-6*max(1,np.linalg.norm(Aop)); key=name+(' ok' if ok else ' BAD'); st[key]=st.get(key,0)+1
        if not ok and st[key]<3: print(name,dims,m,r,d,res,lam,lo)
        st['cons '+str(all(c.ndim==4 for c in modes.cores))]=st.get('cons '+str(all(c.ndim==4 for c in modes.cores)),0)+1
    if np.abs(xt.full()-x0).max()>0 or np.abs(yt.full()-y0).max()>0: st['input changed']=st.get('input changed',0)+1
print(st)
# tedmd
st={}
for trial in range(40):
    d=int(rng.integers(1,3)); m=int(rng.integers(6,12)); p=int(rng.integers(1,4))
    x=rng.uniform(-1,1,(d,m))
    basis=[[tdt.ConstantFunction(0)]+[tdt.Sin(int(rng.integers(d)),float(rng.uniform(0.5,2))) for _ in range(rng.integers(1,3))] for _ in range(p)]
    n=[len(b) for b in basis]
    Psi=np.zeros(n+[m])
    for j in range(m):
        for idx in itertools.product(*[range(k) for k in n]): Psi[idx+(j,)]=np.prod([basis[k][idx[k]](x[:,j]) for k in range(p)])
    Pm=Psi.reshape(-1,m)
    xi=np.arange(0,m-1); yi=np.arange(1,m); xi2=np.arange(0,m-2); yi2=np.arange(2,m)
    ev,et=tedmd.amuset_hosvd(x,xi,yi,basis,threshold=1e-12)
    Px=Pm[:,xi]; Py=Pm[:,yi]; u,s,vh=np.linalg.svd(Px,full_matrices=False); k=int(np.sum(s/s[0]>1e-3)); 
    gap = not ((s/s[0]>0.9e-3)&(s/s[0]<1.1e-3)).any()
    K=np.linalg.pinv(Px.T,rcond=1e-3)@Py.T if False else (u[:,:k]@np.diag(1/s[:k])@vh[:k]@Py.T)
    lo=np.linalg.eigvals(K); lo=lo[np.argsort(-abs(lo))][:k]; lo=np.real(lo[np.argsort(abs(lo-1))])
    ok=len(ev)==k and np.abs(np.sort(ev)-np.sort(lo)).max()<1e-7
    key='hosvd '+('ok' if ok else 'BAD')+(' gap' if gap else ' nogap'); st[key]=st.get(key,0)+1
    if not ok and st[key]<3: print(ev,lo,s/s[0])
    evs,ets=tedmd.amuset_hosvd(x,[xi,xi2],[yi,yi2],basis,threshold=1e-12)
    ev2,et2=tedmd.amuset_hosvd(x,xi2,yi2,basis,threshold=1e-12)
    same0=np.abs(ets[0].full()-et.full()).max() if ets[0].full().shape==et.full().shape else 'shape'
    same1=np.abs(ets[1].full()-et2.full()).max() if ets[1].full().shape==et2.full().shape else 'shape'
    st['alias' if ets[0] is ets[1] else 'noalias']=st.get('alias' if ets[0] is ets[1] else 'noalias',0)+1
    if trial<3: print("batch vs single", same0, same1, np.abs(evs[0]-ev).max(), np.abs(evs[1]-ev2).max())
print(st)
