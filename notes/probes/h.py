import numpy as np
from scikit_tt.tensor_train import TT
def rtt(rng, rows, cols, ranks, cplx=False):
    cores=[]
    for i in range(len(rows)):
        c=rng.standard_normal((ranks[i],rows[i],cols[i],ranks[i+1]))
        if cplx: c=c+1j*rng.standard_normal(c.shape)
        cores.append(c)
    return TT(cores)
def ttsvd(X, rows, cols):
    """independent exact TT-SVD of dense operator array with shape rows+cols -> list of cores"""
    d=len(rows); p=[d*j+i for i in range(d) for j in range(2)]
    Y=np.transpose(X.reshape(list(rows)+list(cols)),p); r=1; cores=[]
    for i in range(d-1):
        Y=Y.reshape(r*rows[i]*cols[i],-1)
        u,s,v=np.linalg.svd(Y,full_matrices=False)
        k=max(1,int(np.sum(s>1e-14*s[0])))
        cores.append(u[:,:k].reshape(r,rows[i],cols[i],k)); Y=s[:k,None]*v[:k]; r=k
    cores.append(Y.reshape(r,rows[-1],cols[-1],1)); return cores
def op_from_mat(M, dims):
    return TT(ttsvd(np.asarray(M), dims, dims))
def vec_from(v, dims):
    return TT(ttsvd(np.asarray(v), dims, [1]*len(dims)))
def maxranks(dims):
    d=len(dims); return [1]+[int(min(np.prod(dims[:i]),np.prod(dims[i:]))) for i in range(1,d)]+[1]
def rand_herm(rng,N,cplx,lo=1.0,hi=10.0):
    A=rng.standard_normal((N,N))+(1j*rng.standard_normal((N,N)) if cplx else 0)
    Q,_=np.linalg.qr(A); lam=np.sort(rng.uniform(lo,hi,N)); return (Q*lam)@Q.conj().T, lam, Q
