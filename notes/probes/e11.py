import numpy as np, warnings, scipy.linalg as sl, traceback
from h import *
import scikit_tt.solvers.ode as ode
rng=np.random.default_rng(8)
for cplx in [False,True]:
  for dims in [[2,2],[2,3,2],[2,2,2,2],[3,2,2]]:
    N=int(np.prod(dims)); d=len(dims)
    H,lam,Q=rand_herm(rng,N,cplx,-1,1); Htt=op_from_mat(H,dims)
    for ranks in [maxranks(dims),[1]+[2]*(d-1)+[1],[1]*(d+1)]:
      if any(r>m for r,m in zip(ranks,maxranks(dims))): continue
      x0=rtt(rng,dims,[1]*d,ranks,True); x0=(1/x0.norm())*x0
      x0o=x0.copy().ortho_right()
      h=0.3; n=2
      ex=[sl.expm(-1j*h*k*H)@x0.matricize() for k in range(n+1)]
      en=lambda v: np.real(v.conj()@H@v)
      for name,f in [('tdvp2',lambda x: ode.tdvp2site(Htt,x,h,n)),('tdvp',lambda x: ode.tdvp(Htt,x,h,n))]:
          try:
            sol=f(x0o)
            errs=[np.linalg.norm(s.matricize()-e) for s,e in zip(sol,ex)]
            norms=[abs(np.linalg.norm(s.matricize())-1) for s in sol]
            ens=[abs(en(s.matricize())-en(ex[0])) for s in sol]
            print(cplx,dims,ranks,name,"len",len(sol),"err %.1e"%max(errs),"norm %.1e"%max(norms),"energy %.1e"%max(ens), sol[-1].ranks)
          except Exception as e:
            print(cplx,dims,ranks,name,"EXC",type(e).__name__,str(e)[:80])
            if dims==[2,2] and not cplx and ranks==[1,2,1]: traceback.print_exc()
