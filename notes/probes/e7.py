import numpy as np, warnings
from h import *
import scikit_tt.solvers.evp as evp
rng=np.random.default_rng(5)
def rq(A,x,B=None):
    n=x.conj()@A@x; d=(x.conj()@x) if B is None else (x.conj()@B@x); return n/d
for cplx in [False,True]:
  for dims in [[2,2],[2,3,2],[2,2,2,2]]:
    N=int(np.prod(dims)); A,lam,Q=rand_herm(rng,N,cplx,-2,3)
    Att=op_from_mat(A,dims); d=len(dims)
    for solver in ['eig','eigh']:
      for ranks in [maxranks(dims),[1]+[1]*(d-1)+[1]]:
        g=rtt(rng,dims,[1]*d,ranks,cplx)
        sigma=lam[-1]+0.5
        out=[]
        for rep in [1,2,3]:
            ev,x,it=evp.als(Att,g,repeats=rep,solver=solver,sigma=sigma,conv_eps=0)
            xv=x.matricize(); out.append((float(np.real(ev)), abs(rq(A,xv)-ev), abs(np.linalg.norm(xv)-1)))
        print(cplx,dims,solver,ranks,"lam_max=%.4f"%lam[-1], [("%.4f"%a,"%.1e"%b,"%.1e"%c) for a,b,c in out])
    # exact eigenvector guess, low rank: construct operator with rank-1 top eigenvector
    v=rtt(rng,dims,[1]*d,[1]*(d+1),cplx).matricize(); v/=np.linalg.norm(v)
    # build A2 with eigenvector v for eigenvalue 5 (largest)
    P=np.eye(N)-np.outer(v,v.conj()); A2=P@A@P*0.3+5*np.outer(v,v.conj()); A2tt=op_from_mat(A2,dims)
    vtt=vec_from(v,dims)
    vtt_scaled=TT([c*(1.7+i) for i,c in enumerate(vtt.cores)])  # non-orthonormal cores same tensor direction
    for solver in ['eig','eigh']:
        ev,x,it=evp.als(A2tt,vtt_scaled,repeats=1,solver=solver,sigma=5.0,conv_eps=0)
        print("  exact guess (nonortho)",solver,ev, 1-abs(np.vdot(x.matricize(),v)))
        vo=vtt_scaled.copy().ortho_right()
        ev,x,it=evp.als(A2tt,vo,repeats=1,solver=solver,sigma=5.0,conv_eps=0)
        print("  exact guess (right-ortho)",solver,ev, 1-abs(np.vdot(x.matricize(),v)))
