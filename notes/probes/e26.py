import numpy as np, warnings, traceback
import scikit_tt.tensor_train as tt
rng=np.random.default_rng(0)
for shape in [(2,1),(3,2,1,1),(1,1),(2,2,2,2)]:
    for thr in [0,1e-3]:
        for mr in [np.inf,2]:
            X=rng.standard_normal(shape)
            try:
                t=tt.TT(X,threshold=thr,max_rank=mr); print(shape,thr,mr,"ok",t.ranks)
            except Exception as e:
                print(shape,thr,mr,"EXC",type(e).__name__,e); 
                if shape==(2,1) and thr>0 and mr==np.inf: traceback.print_exc()
