import numpy as np, warnings, itertools
from h import *
import scikit_tt.tensor_train as tt, scikit_tt.solvers.evp as evp
rng=np.random.default_rng(25)
def mk(rows,ranks,forder=False,cplx=False):
    t=rtt(rng,rows,[1]*len(rows),ranks,cplx)
    if forder: t.cores=[np.asfortranarray(c) for c in t.cores]
    return t
def snap(t): return [c.copy() for c in t.cores]
def same(t,s): return all(np.array_equal(a,b) for a,b in zip(t.cores,s))
layouts={'rank1':lambda d: ([2]*d,[1]*(d+1),False),'rank2':lambda d: ([2]*d,[1]+[2]*(d-1)+[1],False),'size1':lambda d: ([2,1,2,1][:d],[1]+[2]*(d-1)+[1],False),
         'rank2F':lambda d: ([2]*d,[1]+[2]*(d-1)+[1],True),'rank1F':lambda d: ([3]*d,[1]*(d+1),True),'wide':lambda d: ([3]*d,[1]+[3]*(d-1)+[1],False)}
follow={'ortho_left':lambda r: r.ortho_left(),'ortho_right':lambda r: r.ortho_right(),'ortho1':lambda r: r.ortho(max_rank=1),'tt2qtt':lambda r: r.tt2qtt([[n] for n in r.row_dims],[[n] for n in r.col_dims]),'svd_ow':lambda r: r.svd(1,overwrite=True) if r.order>1 else None,'norm':lambda r: r.norm()}
def producers(a,b):
    return {'td lf':lambda: a.tensordot(b,1),'td ll':lambda: a.tensordot(b,1,mode='last-last'),'td fl':lambda: a.tensordot(b,1,mode='first-last'),'td ff':lambda: a.tensordot(b,1,mode='first-first'),
            'concat':lambda: a.concatenate(b),'concat list':lambda: a.concatenate(list(b.cores)),'diag':lambda: a.diag([0])}
hits={}
for lname,lf in layouts.items():
    for fname,ff in follow.items():
        for pname in ['td lf','td ll','td fl','td ff','concat','concat list','diag']:
            rows,ranks,fo=lf(3); a=mk(rows,ranks,fo); b=mk(rows[::-1] if pname in('td ll',) else rows,ranks,fo)
            # make contracted dims match: all dims equal in most layouts; for size1 adjust
            if lname=='size1': b=mk(rows,ranks,fo)
            sa,sb=snap(a),snap(b)
            try:
                with warnings.catch_warnings():
                    warnings.simplefilter("ignore")
                    r=producers(a,b)[pname](); ff(r)
            except Exception as e:
                hits[(pname,lname,fname)]='EXC '+type(e).__name__; continue
            hits[(pname,lname,fname)]=('a' if not same(a,sa) else '')+('b' if not same(b,sb) else '')
for pname in ['td lf','td ll','td fl','td ff','concat','concat list','diag']:
    print(pname, {l:[f for f in follow if hits[(pname,l,f)] not in ('',) ] for l in layouts})
