import numpy as np, warnings, itertools
import scikit_tt.tensor_train as tt
from scikit_tt.tensor_train import TT
rng=np.random.default_rng(2)
def rtt(rows, cols, ranks, cplx=False):
    cores=[]
    for i in range(len(rows)):
        c=rng.standard_normal((ranks[i],rows[i],cols[i],ranks[i+1]))
        if cplx: c=c+1j*rng.standard_normal(c.shape)
        cores.append(c)
    return TT(cores)
def consistent(t):
    ok = t.order==len(t.cores)
    for i,c in enumerate(t.cores):
        ok &= (c.ndim==4 and c.shape==(t.ranks[i],t.row_dims[i],t.col_dims[i],t.ranks[i+1]))
    return ok
def left_iso(c):
    m=c.reshape(-1,c.shape[3]); return np.abs(m.conj().T@m-np.eye(m.shape[1])).max()
def right_iso(c):
    m=c.reshape(c.shape[0],-1); return np.abs(m@m.conj().T-np.eye(m.shape[0])).max()
# over-parameterised ranks
a=rtt([2,2,2],[1,2,1],[1,5,5,1],True); f=a.full().copy()
b=a.copy().ortho_left(); print("left", b.ranks, np.abs(b.full()-f).max(), [left_iso(c) for c in b.cores[:-1]], consistent(b))
b=a.copy().ortho_right(); print("right", b.ranks, np.abs(b.full()-f).max(), [right_iso(c) for c in b.cores[1:]], consistent(b))
b=a.copy().ortho(); print("ortho", b.ranks, np.abs(b.full()-f).max(), consistent(b))
# rank-deficient cores (zero core)
z=tt.zeros([2,2],[1,1],[1,2,1]); 
b=z.copy().ortho_left(); print("zero left", b.ranks, np.abs(b.full()).max())
with warnings.catch_warnings(record=True) as w:
    warnings.simplefilter("always")
    try:
        b=z.copy().ortho_left(threshold=1e-10); print("zero left thr", b.ranks, b.full())
    except Exception as e: print("zero thr EXC", type(e).__name__, e)
    print([str(x.message) for x in w])
# partial sweeps
a=rtt([2,3,2,2],[1,1,2,1],[1,2,3,2,1]); f=a.full().copy()
b=a.copy().ortho_left(start_index=1,end_index=2); print("partial left", np.abs(b.full()-f).max(), left_iso(b.cores[1]), left_iso(b.cores[2]), np.abs(b.cores[0]-a.cores[0]).max(), consistent(b))
b=a.copy().ortho_right(start_index=2,end_index=1); print("partial right", np.abs(b.full()-f).max(), right_iso(b.cores[1]), right_iso(b.cores[2]), np.abs(b.cores[3]-a.cores[3]).max(), consistent(b))
# d=1
a=rtt([3],[2],[1,1]); b=a.copy().ortho(); print("d1 ortho", np.abs(b.full()-a.full()).max())
# truncation from array
X=rng.standard_normal((3,4,3,2,1,2))
for mr in [1,2,3]:
    t=TT(X,max_rank=mr); 
    # bound
    d=3; err=np.linalg.norm(t.full()-X)
    p=[0,3,1,4,2,5]; Y=np.transpose(X,p)
    bound=0
    for k in range(1,d):
        M=Y.reshape(int(np.prod(Y.shape[:2*k])),-1); s=np.linalg.svd(M,compute_uv=False); bound+=np.sum(s[mr:]**2)
    print("TT(array) max_rank",mr,t.ranks,err,np.sqrt(bound))
for thr in [0.5,0.1,1e-3]:
    t=TT(X,threshold=thr); err=np.linalg.norm(t.full()-X); print("thr",thr,t.ranks,err, thr*np.linalg.norm(X))
# ortho with max_rank on TT
a=rtt([3,3,3],[2,1,2],[1,4,4,1]); f=a.full()
for mr in [1,2,3,[1,2,3,1]]:
    b=a.copy().ortho(max_rank=mr); err=np.linalg.norm(b.full()-f)
    Y=np.transpose(f,[0,3,1,4,2,5]); bound=0
    for k in range(1,3):
        M=Y.reshape(int(np.prod(Y.shape[:2*k])),-1); s=np.linalg.svd(M,compute_uv=False); r=mr if isinstance(mr,int) else mr[k]; bound+=np.sum(s[r:]**2)
    print("ortho max_rank",mr,b.ranks,err,np.sqrt(bound))
# TT(cores, max_rank)
b=TT([c.copy() for c in a.cores], max_rank=2); print(b.ranks)
# svd / pinv
a=rtt([2,3,2,2],[1,1,1,1],[1,2,3,2,1],True); f=a.full().reshape(2,3,2,2)
for idx in [1,2,3]:
    a0=a.full().copy()
    u,s,v=a.svd(idx)
    M=f.reshape(int(np.prod(f.shape[:idx])),-1); sd=np.linalg.svd(M,compute_uv=False)
    U=u.cores[0]
    # contract u fully
    def contract(t):
        x=t.cores[0]
        for c in t.cores[1:]: x=np.tensordot(x,c,axes=(x.ndim-1,0))
        return x
    Uf=contract(u).reshape(-1,u.ranks[-1]); Vf=contract(v).reshape(v.ranks[0],-1)
    print("svd",idx,np.abs(s-sd[:len(s)]).max(), np.abs(Uf.conj().T@Uf-np.eye(len(s))).max(), np.abs(Vf@Vf.conj().T-np.eye(len(s))).max(), np.abs(Uf@np.diag(s)@Vf-M).max(), np.abs(a.full()-a0).max())
    p=a.pinv(idx); P=p.full().reshape(M.shape); print("  pinv", np.abs(P-np.linalg.pinv(M).conj().T).max(), np.abs(P-np.linalg.pinv(M).T).max())
